import MlModel.Model.Piter
/-!
# The two-level composition `piter(iterator_fn, input_iterators=[i_1 … i_n], max_parallism=P)`
as a labelled transition system over TWO `IteratorQueue` LTS instances in ONE thread pool.

ml_metrics/_src/utils/iter_utils.py: `piter` (1092-1154) builds
* the INPUT queue `Q1 = piter_multiplex(input_iterators, buffer_size = buffer_size or P,
  max_batch_size = 1 if P > 1 else 0, max_enqueuer = n)` fed by `n` *first-level* pool tasks
  `Q1.enqueue_from_iterator(i_k)` (1137-1143, 1042-1052), and
* the OUTPUT queue `Q2 = piter_fn(iterator_fn, input_iterable = Q1, parallism = P)` (1148-1154, 1055-1089) fed by
  `P` *second-level* pool tasks `Q2.enqueue_from_iterator(iterator_fn(_ThreadSafeIterator(Q1)))`; `iter(Q1)` is ONE
  `DequeueIterator(Q1)` (shared cache) behind ONE lock (`lock1`); `Q2._upstream = Q1` (fix 091db8d).
The caller iterates `Q2` (a `DequeueIterator`, possibly with `num_steps`) and finally shuts the pool down.

Both queues are stepped by `Queue.stepThread`, each thread on the queue it is currently operating on: every thread
carries TWO `Queue.Thread` parts, `a` (its role in `Q1`) and `b` (its role in `Q2`):

* thread 0 — the consumer: `start` · `submit` × (n + P) · `b` = `get_batch` loop of `Q2` with `num_steps` ·
  on an early stop `b` = `Q2.maybe_stop()` followed by `a` = `Q1.maybe_stop()` (`_maybe_stop_upstream`, 801-805) ·
  `shutdown` (joins every task);
* threads 1..n — first level: `a` = `Prog.producer input ret` on `Q1`, gated by the pool (`start` enabled iff the task was
  submitted and fewer than `maxWorkers` tasks of EITHER level run; 0 = no bound); `b` unused;
* threads n+1..n+P — second level: `b` = producer on `Q2`; its `next(iterator)` is
  `acquire lock1` · [cache empty: one whole `Q1.get_batch()` by `a` = `batchLoop bm1`] · `release lock1`, then the row-wise
  `iterator_fn` as in `Model/Piter.lean` (`F`, `pend`).  The end of the input queue reaches it as `StopIteration(*Q1.returned)`:
  a generator `iterator_fn` ends with its own return value, a pass-through (`map`) forwards the arguments (`fwd`).
  When its `enqueue_from_iterator` fails (827-830) or leaves the loop because `Q2` is done with an exception or a stop
  request (831-832) it runs `a` = `Q1.maybe_stop()` before the task ends.

Labels are those of the scheduler shim: `Q1` = `q1 / cond1 / cond2 / rlock1`, `Q2` = `q2 / cond3 / cond4 / rlock2`.
-/
namespace MlModel.Piter2
open MlModel.Queue

inductive Role where
  | cons | l1 | l2
  deriving DecidableEq, Repr, Inhabited

/-- where a second-level task is outside the `Q2` API -/
inductive XPc where
  /-- inside the `Q2` API (or not started / finished) -/
  | idle
  /-- `_ThreadSafeIterator.__next__`: about to acquire `lock1` -/
  | lockAcq
  /-- holding `lock1`, inside `DequeueIterator(Q1).__next__` → `Q1.get_batch()` (part `a` runs) -/
  | deq
  /-- holding `lock1`, result in `hand`, about to release -/
  | lockRel
  /-- `Q2._maybe_stop_upstream()` → `Q1.maybe_stop()` (part `a` runs as a stopper), then the task ends -/
  | up
  deriving DecidableEq, Repr, Inhabited

/-- result of `next(DequeueIterator(Q1))` -/
inductive Hand where
  | item (v : Nat)
  | stop (rets : List Nat)
  | err (e : ErrKind)
  deriving DecidableEq, Repr, Inhabited

/-- phase of the consumer thread -/
inductive CPc where
  | boot | submit | iter | stopping | upstop | shutdown | fin
  deriving DecidableEq, Repr, Inhabited

structure Th where
  role : Role
  /-- part on the INPUT queue `Q1` -/
  a : Queue.Thread
  /-- part on the OUTPUT queue `Q2` -/
  b : Queue.Thread
  x : XPc := .idle
  hand : Hand := .stop []
  /-- second level: outputs of `F` computed and not yet yielded -/
  pend : List Nat := []
  /-- first level: further arguments of the `StopIteration` ending the input -/
  more : List Nat := []
  /-- ghost: input values pulled (first level: from its input; second level: from `Q1`) -/
  pulled : List Nat := []
  /-- ghost: values put into the thread's output queue -/
  emitted : List Nat := []
  cpc : CPc := .boot
  iterOutcome : Option Raise := none
  early : Bool := false
  deriving Repr, Inhabited

structure Cfg where
  /-- the input queue -/
  s1 : Shared
  /-- the output queue -/
  s2 : Shared
  ths : List Th
  /-- owner of `_ThreadSafeIterator._lock` -/
  ilock : Option Tid := none
  /-- `DequeueIterator(Q1)._cache` -/
  cache : List Elem := []
  /-- `max_workers` of the pool, 0 = no bound -/
  maxWorkers : Nat := 0
  /-- tasks submitted so far (thread `k ≥ 1` is submitted iff `k ≤ nsub`) -/
  nsub : Nat := 0
  /-- `num_steps` of the caller's `DequeueIterator(Q2)` -/
  numSteps : Option Nat := none
  /-- `iterator_fn` forwards the `StopIteration` of its input (`map`) instead of returning its own value -/
  fwd : Bool := false
  /-- `max_batch_size` of `Q1` -/
  bm1 : Nat := 1
  /-- the pool hands its work items out in submission order (CPython's `ThreadPoolExecutor` takes them from a FIFO
  work queue); `false` = any submitted task may start (what the scheduler shim of the tie explores: a superset) -/
  fifo : Bool := false
  deriving Repr, Inhabited

def Th.started (t : Th) : Bool :=
  match t.role with
  | .cons => true | .l1 => t.a.pc != .start | .l2 => t.b.pc != .start

/-- the task / the consumer has run to its end -/
def Th.done (t : Th) : Bool :=
  match t.role with
  | .cons => t.cpc == .fin
  | .l1 => t.a.pc == .done
  | .l2 => t.b.pc == .done && t.x == .idle

def Th.isTask (t : Th) : Bool := t.role != .cons

def Cfg.nTasks (c : Cfg) : Nat := c.ths.length - 1

/-- pool tasks started and not finished -/
def Cfg.running (c : Cfg) : Nat := (c.ths.filter fun t => t.isTask && t.started && !t.done).length

def Cfg.tasksDone (c : Cfg) : Bool := c.ths.all fun t => !t.isTask || t.done

/-- the pool lets task `tid` start -/
def Cfg.gate (c : Cfg) (tid : Tid) : Bool :=
  tid ≤ c.nsub && (c.maxWorkers == 0 || c.running < c.maxWorkers) && (!c.fifo || (c.ths.take tid).all (·.started))

def retOf (q : Queue.Thread) : Nat := match q.prog with | .producer _ r => r | _ => 0

/-- rename the queue objects in a label of `Queue.stepThread` to those of the second queue -/
def relabel2 (l : String) : String :=
  (((l.replace "cond2" "cond4").replace "cond1" "cond3").replace "rlock1" "rlock2").replace "q1" "q2"

abbrev StepResult := Option (String × Cfg)

def Cfg.setTh (c : Cfg) (tid : Tid) (t : Th) : Cfg := { c with ths := c.ths.set tid t }

/-! ### second level -/

/-- `Q2.enqueue_from_iterator` is about to call `next(iterator)`: the generator first yields what it still holds. -/
def enterNext (tid : Tid) (t : Th) : Th :=
  match t.pend with
  | y :: ys => { t with b := { t.b with pc := .pAcq, v := (tid, y) }, pend := ys }
  | [] => { t with x := .lockAcq }

/-- `next(iterator)` raised `e`: `Q2._exception = e; Q2._stop_enqueue(); Q2._maybe_stop_upstream(); raise e` (817-830) -/
def failPull (e : ErrKind) (s2 : Shared) (t : Th) : Shared × Th :=
  ({ s2 with exc := some e },
   { t with b := { t.b with pc := .tAcq, rets := [], reraise := some e }, x := .idle })

/-- what the second-level task does with the result of `next(_ThreadSafeIterator(Q1))` (thread-local) -/
def afterPull (F : Nat → Option (List Nat)) (fwd : Bool) (tid : Tid) (s2 : Shared) (t : Th) (r : Hand) : Shared × Th :=
  match r with
  | .stop rets =>
    (s2, { t with b := { t.b with pc := .tAcq, rets := if fwd then rets else [retOf t.b], reraise := none }, x := .idle })
  | .err e => failPull e s2 t
  | .item v =>
    let t1 := { t with pulled := t.pulled ++ [v] }
    match F v with
    | none => failPull .value s2 t1
    | some [] => (s2, { t1 with x := .lockAcq })
    | some (y :: ys) => (s2, { t1 with b := { t1.b with pc := .pAcq, v := (tid, y) }, pend := ys, x := .idle })

/-- the result of one `Q1.get_batch()` call as seen by `DequeueIterator.__next__` (864-871): `pcBefore` is the program
point of part `a` before its step, `a'` the part after it.  `none` = the call is still running. -/
def batchEnd (pcBefore : Pc) (resBefore : List Elem) (a' : Queue.Thread) (cache : List Elem) :
    Option (Hand × List Elem) :=
  if pcBefore == .bE3 then
    match cache ++ resBefore with
    | v :: rest => some (.item v.2, rest)
    | [] => some (.err .index, [])
  else if pcBefore == .bRaise then
    match a'.outcome with
    | some (.stop rets) => some (.stop rets, cache)
    | some (.err e) => some (.err e, cache)
    | _ => some (.err .runtime, cache)
  else none

/-- `_maybe_stop_upstream` (801-805) after the `Q2` part of a second-level task reached its end -/
def wantUp (pcBefore : Pc) (s2 : Shared) (b' : Queue.Thread) : Bool :=
  if pcBefore == .tRel then b'.outcome.isSome      -- the failure path (827-830); a clean `StopIteration` just returns
  else s2.exc.isSome || s2.stopRequested            -- the loop was left because `enqueue_done` (831-832)

def stopperAt (a : Queue.Thread) : Queue.Thread := { a with pc := .mAcq, prog := .stopper none }

/-- after a `Q2` step of a second-level task -/
def postProd (tid : Tid) (t : Th) (s2' : Shared) (b' : Queue.Thread) : Th :=
  let t1 := { t with b := b', emitted :=
    if t.b.pc == .pPut && b'.pc == .pStAcq then t.emitted ++ [t.b.v.2] else t.emitted }
  if b'.pc == .eNext then enterNext tid t1
  else if b'.pc == .done && wantUp t.b.pc s2' b' then { t1 with a := stopperAt t1.a, x := .up }
  else t1

def stepL2 (F : Nat → Option (List Nat)) (c : Cfg) (tid : Tid) (t : Th) (alt : Bool) : StepResult :=
  match t.b.pc with
  | .start =>
    if alt then none else
    if c.gate tid then some ("start", c.setTh tid { t with b := { t.b with pc := .sAcq } }) else none
  | .eNext =>
    match t.x with
    | .lockAcq =>
      if alt then none else
      match c.ilock with
      | some _ => none
      | none =>
        match c.cache with
        | v :: rest =>
          some ("acquire lock1", { c with ilock := some tid, cache := rest,
                                          ths := c.ths.set tid { t with hand := .item v.2, x := .lockRel } })
        | [] =>
          let t' : Th := { t with a := { t.a with pc := .bAcq, prog := .batchLoop c.bm1 false, result := [] }, x := .deq }
          some ("acquire lock1", { c with ilock := some tid, ths := c.ths.set tid t' })
    | .deq =>
      match stepThread c.s1 t.a tid alt with
      | none => none
      | some (lbl, s1', a') =>
        match batchEnd t.a.pc t.a.result a' c.cache with
        | none => some (lbl, { c with s1 := s1', ths := c.ths.set tid { t with a := a' } })
        | some (h, cache') =>
          some (lbl, { c with s1 := s1', cache := cache', ths := c.ths.set tid { t with a := a', hand := h, x := .lockRel } })
    | .lockRel =>
      if alt then none else
      if c.ilock != some tid then none else
      some ("release lock1", { c with s2 := (afterPull F c.fwd tid c.s2 t t.hand).1, ilock := none,
                                      ths := c.ths.set tid (afterPull F c.fwd tid c.s2 t t.hand).2 })
    | _ => none
  | .done =>
    match t.x with
    | .up =>
      match stepThread c.s1 t.a tid alt with
      | none => none
      | some (lbl, s1', a') =>
        some (lbl, { c with s1 := s1', ths := c.ths.set tid { t with a := a', x := (if a'.pc == .done then XPc.idle else XPc.up) } })
    | _ => none
  | _ =>
    match stepThread c.s2 t.b tid alt with
    | none => none
    | some (lbl, s2', b') => some (relabel2 lbl, { c with s2 := s2', ths := c.ths.set tid (postProd tid t s2' b') })

/-! ### first level -/

def stepL1 (c : Cfg) (tid : Tid) (t : Th) (alt : Bool) : StepResult :=
  match t.a.pc with
  | .start =>
    if alt then none else
    if c.gate tid then
      match stepThread c.s1 t.a tid alt with
      | none => none
      | some (lbl, s1', a') => some (lbl, { c with s1 := s1', ths := c.ths.set tid { t with a := a' } })
    else none
  | .eNext =>
    if alt then none else
    match t.a.src with
    | [] =>
      -- the input ends with `StopIteration(ret, *more)`
      some ("next", c.setTh tid { t with a := { t.a with pc := .tAcq, rets := retOf t.a :: t.more, reraise := none } })
    | i :: _ =>
      match stepThread c.s1 t.a tid alt with
      | none => none
      | some (lbl, s1', a') =>
        let t' : Th := { t with a := a', pulled := (match i with | .val v => t.pulled ++ [v] | .fail => t.pulled) }
        some (lbl, { c with s1 := s1', ths := c.ths.set tid t' })
  | _ =>
    match stepThread c.s1 t.a tid alt with
    | none => none
    | some (lbl, s1', a') =>
      let t' : Th := { t with a := a', emitted :=
        (if t.a.pc == .pPut && a'.pc == .pStAcq then t.emitted ++ [t.a.v.2] else t.emitted) }
      some (lbl, { c with s1 := s1', ths := c.ths.set tid t' })

/-! ### the consumer -/

/-- the consumer starts iterating: first `__next__` of its `DequeueIterator(Q2)` -/
def beginIter (c : Cfg) (t : Th) : Th :=
  if c.numSteps == some 0 then
    { t with b := { t.b with pc := .mAcq, prog := .stopper none }, cpc := .stopping, early := true,
             iterOutcome := some (.stop []) }
  else { t with b := { t.b with pc := .bAcq }, cpc := .iter }

/-- after a `Q2` step of the iterating consumer -/
def afterIter (c : Cfg) (pcBefore : Pc) (s : Shared) (t : Th) : Shared × Th :=
  if pcBefore == .bRaise then
    (s, { t with iterOutcome := t.b.outcome, cpc := .shutdown })
  else if pcBefore == .bE3 then
    match c.numSteps with
    | none => (s, t)
    | some k =>
      if t.b.received.length ≥ k then
        ({ s with lost := s.lost ++ t.b.received.drop k },
         { t with b := { t.b with pc := .mAcq, prog := .stopper none, received := t.b.received.take k },
                  cpc := .stopping, early := true, iterOutcome := some (.stop []) })
      else (s, t)
  else (s, t)

def stepCons (c : Cfg) (tid : Tid) (t : Th) (alt : Bool) : StepResult :=
  match t.cpc with
  | .fin => none
  | .boot =>
    if alt then none else
    if c.nTasks == 0 then some ("start", c.setTh tid (beginIter c t))
    else some ("start", c.setTh tid { t with cpc := .submit })
  | .submit =>
    if alt then none else
    let n := c.nsub + 1
    let t' := if n ≥ c.nTasks then beginIter c t else t
    some ("submit", { c with nsub := n, ths := c.ths.set tid t' })
  | .iter =>
    match stepThread c.s2 t.b tid alt with
    | none => none
    | some (lbl, s2', b') =>
      some (relabel2 lbl, { c with s2 := (afterIter c t.b.pc s2' { t with b := b' }).1,
                                   ths := c.ths.set tid (afterIter c t.b.pc s2' { t with b := b' }).2 })
  | .stopping =>
    -- `Q2.maybe_stop()`; its last statement is `self._maybe_stop_upstream()` → `Q1.maybe_stop()`
    match stepThread c.s2 t.b tid alt with
    | none => none
    | some (lbl, s2', b') =>
      let t' : Th := if b'.pc == .done then
          (if b'.outcome.isNone then { t with b := b', a := stopperAt t.a, cpc := .upstop } else { t with b := b', cpc := .shutdown })
        else { t with b := b' }
      some (relabel2 lbl, { c with s2 := s2', ths := c.ths.set tid t' })
  | .upstop =>
    match stepThread c.s1 t.a tid alt with
    | none => none
    | some (lbl, s1', a') =>
      some (lbl, { c with s1 := s1', ths := c.ths.set tid { t with a := a', cpc := (if a'.pc == .done then CPc.shutdown else CPc.upstop) } })
  | .shutdown =>
    if alt then none else
    if c.tasksDone then some ("shutdown", c.setTh tid { t with cpc := .fin }) else none

/-- One step of thread `tid`. -/
def step (F : Nat → Option (List Nat)) (c : Cfg) (tid : Tid) (alt : Bool) : StepResult :=
  match c.ths[tid]? with
  | none => none
  | some t =>
    match t.role with
    | .cons => stepCons c tid t alt
    | .l1 => stepL1 c tid t alt
    | .l2 => stepL2 F c tid t alt

/-! ### initial configurations -/

/-- an input iterator: its items and the arguments `ret :: more` of the `StopIteration` that ends it -/
structure InSpec where
  items : List Item
  ret : Nat
  more : List Nat := []
  deriving Repr, Inhabited, DecidableEq

def mkL1 (i : InSpec) : Th :=
  { role := .l1, a := { prog := .producer i.items i.ret }, b := { prog := .getLoop, pc := .done }, more := i.more }

def mkL2 (bm1 : Nat) (ret : Nat) : Th :=
  { role := .l2, a := { prog := .batchLoop bm1 false, pc := .done }, b := { prog := .producer [] ret } }

def mkCons (bm2 : Nat) : Th :=
  { role := .cons, a := { prog := .stopper none, pc := .done }, b := { prog := .batchLoop bm2 false } }

/-- General initial configuration: `cap1`/`cap2` buffer sizes (0 = unbounded), `bm1`/`bm2` batch sizes of the two
`DequeueIterator`s, `maxWorkers` of the one pool, `gens` = return values of the `P` generators made by `iterator_fn`. -/
def init (cap1 cap2 bm1 bm2 maxWorkers : Nat) (numSteps : Option Nat) (fwd : Bool)
    (inputs : List InSpec) (gens : List Nat) : Cfg :=
  { s1 := { cap := cap1, maxEnq := inputs.length, timeout := false, ignoreError := false },
    s2 := { cap := cap2, maxEnq := gens.length, timeout := false, ignoreError := false },
    ths := mkCons bm2 :: (inputs.map mkL1 ++ gens.map (mkL2 bm1)),
    maxWorkers := maxWorkers, numSteps := numSteps, fwd := fwd, bm1 := bm1 }

/-- `_MAX_BATCH_SIZE` -/
def maxBatch : Nat := 4096

/-- the configuration `piter(iterator_fn, input_iterators, max_parallism = P, buffer_size, thread_pool)` builds
(iter_utils.py:1117-1154, `len(input_iterators) > 1`, `P ≥ 1`); `workers = none` = piter's OWN pool, sized by fix b40a851
`len(input_iterators) + max(P, 1)`; `some w` = a pool given by the caller with `max_workers = w` (0 = unbounded). -/
def piterInit (bufferSize : Nat) (workers : Option Nat) (numSteps : Option Nat) (fwd : Bool)
    (inputs : List InSpec) (gens : List Nat) : Cfg :=
  let P := gens.length
  init (if bufferSize == 0 then P else bufferSize) bufferSize (if P > 1 then 1 else maxBatch) maxBatch
    (match workers with | none => inputs.length + max P 1 | some w => w) numSteps fwd inputs gens

def enabled (F : Nat → Option (List Nat)) (c : Cfg) : List (Tid × Bool) :=
  (List.range c.ths.length).flatMap fun tid =>
    ([false, true].filter fun alt => (step F c tid alt).isSome).map fun alt => (tid, alt)

def Cfg.allDone (c : Cfg) : Bool := c.ths.all (·.done)

def replay (F : Nat → Option (List Nat)) : Cfg → List (Tid × Bool) → List (Tid × String) →
    List (Tid × String) × Cfg × Bool
  | c, [], acc => (acc.reverse, c, true)
  | c, (tid, alt) :: rest, acc =>
    match step F c tid alt with
    | none => (acc.reverse, c, false)
    | some (lbl, c') => replay F c' rest ((tid, lbl) :: acc)

def replayEnabled (F : Nat → Option (List Nat)) : Cfg → List (Tid × Bool) → List (List (Tid × Bool)) →
    List (List (Tid × Bool))
  | c, [], acc => (enabled F c :: acc).reverse
  | c, (tid, alt) :: rest, acc =>
    match step F c tid alt with
    | none => (enabled F c :: acc).reverse
    | some (_, c') => replayEnabled F c' rest (enabled F c :: acc)

/-- run a schedule of thread ids (no timeout alternatives); `none` if some choice is not enabled -/
def run (F : Nat → Option (List Nat)) : Cfg → List Tid → Option Cfg
  | c, [] => some c
  | c, tid :: rest =>
    match step F c tid false with
    | none => none
    | some (_, c') => run F c' rest

end MlModel.Piter2
