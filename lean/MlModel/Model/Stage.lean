import MlModel.Model.Basic
/-!
# One remote stage of `run_pipeline_interleaved`: enqueuer registration vs. the workers' pulling (C16)

`_async_run_single_stage.iterate_with_worker_pool` (orchestrate.py:276-400) gives every stage worker one
coroutine `result_q.async_enqueue_from_iterator(worker.async_iter(lazy_iterator))` on ONE event loop:

* `CourierClient.async_iter` (courier_utils.py:786-810): `await` the creation of the worker-side output
  queue (a suspension point), then send the kick-off RPC `enqueue_from_iterator` with
  `return_immediately=True` - from this moment the WORKER pulls batches from the stage input (the master's
  `IteratorQueue`, through `RemoteIteratorQueue.get_batch`) - and return WITHOUT awaiting the reply;
* `AsyncIteratorQueue.async_enqueue_from_iterator` (iter_utils.py:939-962): `_start_enqueue()` (registration:
  `_enqueue_start += 1; _max_enqueuer = max(..)`), then forward the worker's output to the stage's result
  queue until the worker's stream ends, then `_stop_enqueue(returned)`.

`IteratorQueue.enqueue_done` (iter_utils.py:586-594) is `start == stop == max_enqueuer ≠ 0`; the consumer of
the stage's result queue stops when the queue is empty and `enqueue_done` holds.

The LTS below has one step per event-loop turn of a worker's coroutine, per batch pulled by a worker, per
batch produced by the previous stage and per consumer action; reply LATENCY of the kick-off RPC is an
environment choice: with `ackAwait = false` (the code) the reply is never awaited, kick-off and
registration happen in the same event-loop turn (step `created`); with `ackAwait = true` (the class of
changes that put a suspension point between them: `await` the acknowledgement) the reply arrives in a
separate step `ack` at any later time.  `Properties/C16Stage.lean` proves that without the suspension point
no batch is ever lost whatever the schedule, and `Witness/C16Stage.lean` exhibits the loss with it.
-/
namespace MlModel.Stage

/-- program point of a worker's coroutine on the master's event loop -/
inductive Phase where
  | idle        -- not scheduled yet
  | creating    -- `await async_get_result(IteratorQueue(...))`: worker-side queue being created
  | kicked      -- kick-off sent, coroutine suspended waiting for its reply (only with `ackAwait`)
  | registered  -- `_start_enqueue()` done; forwarding the worker's output
  | done        -- `_stop_enqueue(...)` done
  deriving DecidableEq, Repr, Hashable, Inhabited

structure W where
  phase : Phase := .idle
  /-- the worker received the kick-off: its server thread pulls from the stage input -/
  pulling : Bool := false
  /-- the worker's pipeline saw the end of the stage input -/
  remoteDone : Bool := false
  /-- batches taken from the input and not yet forwarded to the stage's result queue (in the worker's
  pipeline / worker-side output queue / in flight) -/
  hand : List Nat := []
  deriving DecidableEq, Repr, Hashable, Inhabited

structure Cfg where
  /-- `false` = the code: no suspension point between the kick-off RPC and `_start_enqueue()` -/
  ackAwait : Bool := false

structure St where
  /-- batches the previous stage has still to put on the stage input -/
  toProduce : List Nat
  /-- the stage input queue -/
  inp : List Nat := []
  /-- the previous stage finished enqueueing (input `enqueue_done`) -/
  inClosed : Bool := false
  ws : List W
  /-- the stage's result queue (`AsyncIteratorQueue`) -/
  resultQ : List Nat := []
  consumed : List Nat := []
  /-- `_enqueue_start`, `_enqueue_stop`, `_max_enqueuer` of the result queue -/
  start : Nat := 0
  stop : Nat := 0
  maxE : Nat := 0
  /-- the consumer of the result queue saw "empty and enqueue_done" and stopped -/
  consumerDone : Bool := false
  deriving DecidableEq, Repr, Hashable, Inhabited

def St.init (batches : List Nat) (nWorkers : Nat) : St :=
  { toProduce := batches, ws := List.replicate nWorkers {} }

/-- `IteratorQueue.enqueue_done` (no exception, no stop request) -/
def St.enqueueDone (s : St) : Bool := s.maxE != 0 && s.start == s.stop && s.stop == s.maxE

inductive Label where
  | produce            -- previous stage: one batch onto the input queue
  | closeInput         -- previous stage: finished
  | schedule (w : Nat) -- main loop: `run_coroutine_threadsafe(async_enqueue_from_iterator(worker.async_iter(..)))`
  | created (w : Nat)  -- event loop: queue creation answered -> kick-off sent (-> registered, if not awaited)
  | ack (w : Nat)      -- event loop: the kick-off's reply arrives (only with `ackAwait`) -> registered
  | pull (w : Nat)     -- worker w takes the next input batch
  | pullEnd (w : Nat)  -- worker w finds the input exhausted
  | forward (w : Nat)  -- event loop: one batch of worker w's output goes to the result queue
  | finish (w : Nat)   -- event loop: worker w's stream ended -> `_stop_enqueue`
  | consume            -- consumer takes one batch from the result queue
  | consumerEnd        -- consumer: queue empty and `enqueue_done` -> StopIteration
  deriving DecidableEq, Repr, Hashable, Inhabited

/-- `_start_enqueue()` -/
def St.register (s : St) : St := { s with start := s.start + 1, maxE := max s.maxE (s.start + 1) }

def step (c : Cfg) (s : St) : Label → Option St
  | .produce =>
    match s.inClosed, s.toProduce with
    | false, b :: t => some { s with toProduce := t, inp := s.inp ++ [b] }
    | _, _ => none
  | .closeInput =>
    match s.inClosed, s.toProduce with
    | false, [] => some { s with inClosed := true }
    | _, _ => none
  | .schedule w =>
    match s.ws[w]? with
    | some x => if x.phase = .idle then some { s with ws := s.ws.set w { x with phase := .creating } } else none
    | none => none
  | .created w =>
    match s.ws[w]? with
    | some x =>
      if x.phase = .creating then
        if c.ackAwait then some { s with ws := s.ws.set w { x with phase := .kicked, pulling := true } }
        else some { s.register with ws := s.ws.set w { x with phase := .registered, pulling := true } }
      else none
    | none => none
  | .ack w =>
    match s.ws[w]? with
    | some x =>
      if x.phase = .kicked then some { s.register with ws := s.ws.set w { x with phase := .registered } } else none
    | none => none
  | .pull w =>
    match s.ws[w]?, s.inp with
    | some x, b :: rest =>
      if x.pulling && !x.remoteDone then
        some { s with inp := rest, ws := s.ws.set w { x with hand := x.hand ++ [b] } }
      else none
    | _, _ => none
  | .pullEnd w =>
    match s.ws[w]? with
    | some x =>
      if x.pulling && !x.remoteDone && s.inClosed && s.inp.isEmpty then
        some { s with ws := s.ws.set w { x with remoteDone := true } }
      else none
    | none => none
  | .forward w =>
    match s.ws[w]? with
    | some x =>
      match x.hand with
      | b :: rest =>
        if x.phase = .registered then
          some { s with resultQ := s.resultQ ++ [b], ws := s.ws.set w { x with hand := rest } }
        else none
      | [] => none
    | none => none
  | .finish w =>
    match s.ws[w]? with
    | some x =>
      if x.phase = .registered && x.remoteDone && x.hand.isEmpty then
        some { s with stop := s.stop + 1, ws := s.ws.set w { x with phase := .done } }
      else none
    | none => none
  | .consume =>
    match s.consumerDone, s.resultQ with
    | false, b :: q => some { s with resultQ := q, consumed := s.consumed ++ [b] }
    | _, _ => none
  | .consumerEnd =>
    if !s.consumerDone && s.resultQ.isEmpty && s.enqueueDone then some { s with consumerDone := true } else none

inductive Reach (c : Cfg) (s0 : St) : St → Prop where
  | refl : Reach c s0 s0
  | step {s s' : St} (l : Label) : Reach c s0 s → step c s l = some s' → Reach c s0 s'

def run (c : Cfg) : St → List Label → Option St
  | s, [] => some s
  | s, l :: ls => (step c s l).bind fun s' => run c s' ls

/-! ## The stage at THREAD granularity (package C16S): event-loop turns vs. real threads

The real runner has one event-loop thread (all `schedule`d coroutines: `created`, `ack`, `finish`)
and REAL threads beside it (the previous stage, every worker's pulling thread, the pool threads that execute
`async_put`, the consumer).  Even without
a suspension point the loop thread can be pre-empted between sending the kick-off and `_start_enqueue()`:
the worker may then already pull.  What the absence of an `await` guarantees is only that no OTHER step of
the EVENT LOOP happens in between.  `stepT` is the `ackAwait = true` LTS (kick-off `created w` and registration
`ack w` are separate steps) restricted by exactly that: while some worker is `kicked`, the only event-loop
step allowed is the `ack` of that worker.  The step-by-step tie (harness/lib_c16_stage.py) replays the
projection of real runs against `stepT`. -/

/-- steps executed by the single event-loop thread itself.  (`forward` is not one of them: `async_put` hands
`self.put` to the runner's thread pool - `run_in_executor` - so the batch reaches the result queue on a pool
thread, concurrently with the loop's current turn; found by the step-by-step tie.) -/
def Label.isLoop : Label → Bool
  | .created _ | .ack _ | .finish _ => true
  | _ => false

/-- some coroutine is between its kick-off and its `_start_enqueue()` -/
def St.midTurn (s : St) : Bool := s.ws.any fun x => x.phase == .kicked

/-- turn-atomic step: the `ackAwait = true` LTS in which no other event-loop step happens while a coroutine is
between kick-off and registration -/
def stepT (s : St) (l : Label) : Option St :=
  if s.midTurn && l.isLoop && !(match l with | .ack _ => true | _ => false) then none
  else step { ackAwait := true } s l

def runT : St → List Label → Option St
  | s, [] => some s
  | s, l :: ls => (stepT s l).bind fun s' => runT s' ls

inductive ReachT (s0 : St) : St → Prop where
  | refl : ReachT s0 s0
  | step {s s' : St} (l : Label) : ReachT s0 s → stepT s l = some s' → ReachT s0 s'

/-- labels enabled in a state (for at most `n` workers), in a fixed order -/
def allLabels (n : Nat) : List Label :=
  [.produce, .closeInput, .consume, .consumerEnd] ++
  (List.range n).flatMap fun w => [.schedule w, .created w, .ack w, .pull w, .pullEnd w, .forward w, .finish w]

/-- program point reached by a step (coverage key of the tie): the label's constructor, refined by what the
step observes -/
def pointOf (s : St) (l : Label) : String :=
  match l with
  | .produce => "produce"
  | .closeInput => "closeInput"
  | .schedule _ => "schedule"
  | .created _ => if s.start == s.stop && s.start != 0 then "created/after-transient-done" else
                  if s.start != 0 then "created/others-registered" else "created/first"
  | .ack w => if (s.ws[w]?.map (·.hand != [])).getD false then "ack/already-holding" else "ack/empty-handed"
  | .pull w => if (s.ws[w]?.map (·.phase == .kicked)).getD false then "pull/unregistered" else "pull/registered"
  | .pullEnd w => if (s.ws[w]?.map (·.phase == .kicked)).getD false then "pullEnd/unregistered" else
                  if (s.ws[w]?.map (·.hand == [])).getD false then "pullEnd/empty-handed" else "pullEnd/holding"
  | .forward _ => "forward"
  | .finish _ => if s.stop + 1 == s.start then "finish/last" else "finish/others-running"
  | .consume => "consume"
  | .consumerEnd => if s.ws.any (fun x => x.phase == .idle || x.phase == .creating) then "consumerEnd/transient(F22)"
                    else "consumerEnd/final"

end MlModel.Stage
