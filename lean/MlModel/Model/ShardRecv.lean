import MlModel.Model.Shard
/-!
# `from_state` with its RECEIVER as an argument (`chainables/io.py`, `utils/iter_utils.py`)

`Model/Shard.lean` models `SequenceDataSource.from_state` as a function of `len(self.data)` only
(`fromState dataLen state`) — which already *assumes* what the property demands: that the rebuilt
source does not depend on which object `from_state` is called on.  Here the receiver is explicit and
carries **every** dataclass field of `SequenceDataSource` (io.py:35-42): `data` (its length),
`ignore_error`, `_shard_state`, `_start`, `_end`; `from_state` (io.py:94-102) is mirrored line by
line, so *which* fields it reads is visible in the definition and independence of the others is a
theorem (`C09_from_state_receiver_independent`), not a modelling decision.  The same for
`SequenceIterator.state / from_state` (io.py:123-130), `ShardedIterable.from_state` /
`DataIterator.from_state` (io.py:165-166, 183-184) and `MultiplexIterator.state / from_state`
(iter_utils.py:386-401, no parallelism: `itertools.chain` of the source iterators).
-/
namespace MlModel.Shard
open MlModel.Merged

/-- `SequenceDataSource` with all its fields: `ds` = (`len(data)`, `_shard_state`, `_start`, `_end`),
`ignoreError` = `ignore_error` (io.py:38-42). -/
structure Source where
  ds : DS
  ignoreError : Bool
  deriving DecidableEq, Repr

/-- `SequenceDataSource(data, ignore_error=ie)` / `from_sequences(seqs, ie)` -/
def Source.root (n : Nat) (ie : Bool := false) : Source := ⟨DS.root n, ie⟩

/-- `shard` (io.py:61-77): `dc.replace(self, _shard_state=…, _start=…, _end=…)` keeps `data` and
`ignore_error`. -/
def Source.shard (s : Source) (i k : Int) (off : Int := 0) : Except ErrKind Source :=
  match s.ds.shard i k off with
  | .ok d => .ok { s with ds := d }
  | .error e => .error e

/-- `self.from_state(shard_state)` (io.py:94-102), `self` explicit:
```
if shard_state.parent is not None: result = self.from_state(shard_state.parent)
else:                              result = SequenceDataSource(self.data, ignore_error=self.ignore_error)
return result.shard(shard_state.shard_index, shard_state.num_shards, shard_state.start_index)
```
Of the receiver only `data` and `ignore_error` are read. -/
def Source.fromState (self : Source) : ShardConfig → Except ErrKind Source
  | .root i k off => (Source.root self.ds.dataLen self.ignoreError).shard i k off
  | .child i k off p => do
    let r ← self.fromState p
    r.shard i k off

/-- The seeded regression `C09-m4-from-state-keeps-receiver-range`: the base of the replay is
`dc.replace(self, _shard_state=ShardConfig())`, which keeps the receiver's `_start` / `_end`.
(Only used by the witness theorems: this is NOT the code.) -/
def Source.fromStateKeepRange (self : Source) : ShardConfig → Except ErrKind Source
  | .root i k off => ({ self with ds := { self.ds with state := .dflt } } : Source).shard i k off
  | .child i k off p => do
    let r ← self.fromStateKeepRange p
    r.shard i k off

/-- Apply a chain of `shard` calls (outermost first). -/
def Source.shardChain (s : Source) : List (Int × Int × Int) → Except ErrKind Source
  | [] => .ok s
  | (i, k, off) :: rest => do
    let s1 ← s.shard i k off
    s1.shardChain rest

/-- **Receivers**: every `SequenceDataSource` obtainable from `SequenceDataSource(data, ignore_error=ie)`
(`len(data) = n`) by any sequence of successful `shard(i, k, offset)` and `from_state(s)` calls — any
indices, counts, offsets and ANY state `s` whatsoever (its own, a sibling's, an iterator's, one recorded
over other data). -/
inductive Reach (n : Nat) (ie : Bool) : Source → Prop
  | root : Reach n ie (Source.root n ie)
  | shard {r r' : Source} (i k off : Int) : Reach n ie r → r.shard i k off = .ok r' → Reach n ie r'
  | fromState {r r' : Source} (s : ShardConfig) : Reach n ie r → r.fromState s = .ok r' → Reach n ie r'

/-! ## `SequenceIterator` (io.py:111-140) -/

/-- `start_index` of a `ShardConfig`. -/
def ShardConfig.startIndex : ShardConfig → Int
  | .root _ _ s => s
  | .child _ _ s _ => s

/-- `dc.replace(state, start_index=s)` -/
def ShardConfig.withStart : ShardConfig → Int → ShardConfig
  | .root i k _, s => .root i k s
  | .child i k _ p, s => .child i k s p

/-- `SequenceIterator`: `config`, `_index`; `_it = iter(config.data[config.start : config.end])` is at
position `_index - config.start` of that slice (both advance together, io.py:134-135). -/
structure SeqIter where
  config : Source
  index : Int
  deriving DecidableEq, Repr

/-- `SequenceDataSource.iterate()` = `SequenceIterator(self)`: `_index = config.start` (io.py:118). -/
def Source.iterate (s : Source) : SeqIter := ⟨s, s.ds.start⟩

/-- `__next__` (io.py:132-136): `result = next(self._it); self._index += 1` — `StopIteration`
(`none`) leaves `_index` alone. -/
def SeqIter.next {α : Type} (xs : List α) (it : SeqIter) : Option α × SeqIter :=
  match (it.config.ds.elems xs)[(it.index - it.config.ds.start).toNat]? with
  | some a => (some a, { it with index := it.index + 1 })
  | none => (none, it)

/-- `m` successive `next` calls: outcomes and the iterator afterwards. -/
def SeqIter.nexts {α : Type} (xs : List α) : Nat → SeqIter → List (Option α) × SeqIter
  | 0, it => ([], it)
  | m + 1, it =>
    let r := it.next xs
    let rest := SeqIter.nexts xs m r.2
    (r.1 :: rest.1, rest.2)

/-- `state` (io.py:126-130, after the repair F1):
`dc.replace(config.state, start_index = config.state.start_index + _index - config.start)`. -/
def SeqIter.state (it : SeqIter) : ShardConfig :=
  it.config.ds.state.withStart (it.config.ds.state.startIndex + it.index - it.config.ds.start)

/-- `self.from_state(s)` (io.py:123-124): `self.__class__(self.config.from_state(s))` — of the receiving
iterator only `config` is read. -/
def SeqIter.fromState (self : SeqIter) (s : ShardConfig) : Except ErrKind SeqIter :=
  match self.config.fromState s with
  | .ok c => .ok c.iterate
  | .error e => .error e

/-- What an iterator still has to deliver: `list(it)`. -/
def SeqIter.rest {α : Type} (xs : List α) (it : SeqIter) : List α :=
  (it.config.ds.elems xs).drop (it.index - it.config.ds.start).toNat

/-! ## `ShardedIterable` / `DataIterator` receivers (io.py:143-207) -/

/-- `ShardedIterable`: `data` (its length) and `_shard_state` as far as `DataIterator` reads it
(`shard_index`, `num_shards`, `start_index`). -/
structure RRSource where
  dataLen : Nat
  shardIndex : Int
  numShards : Int
  startIndex : Int
  deriving DecidableEq, Repr

/-- `dc.replace(self, _shard_state=st)` re-runs `__post_init__` (io.py:149-156). -/
def RRSource.replaceState (self : RRSource) (i k start : Int) : Except ErrKind RRSource :=
  match rrMake k with
  | .ok _ => .ok { self with shardIndex := i, numShards := k, startIndex := start }
  | .error e => .error e

/-- `ShardedIterable(data)` -/
def RRSource.root (n : Nat) : RRSource := ⟨n, 0, 1, 0⟩

/-- `shard(i, k)` (io.py:158-159): `ShardConfig(i, k)`, start 0. -/
def RRSource.shard (self : RRSource) (i k : Int) : Except ErrKind RRSource := self.replaceState i k 0

/-- `from_state(ShardConfig(i, k, start))` (io.py:165-166): of the receiver only `data` survives. -/
def RRSource.fromState (self : RRSource) (i k start : Int) : Except ErrKind RRSource :=
  self.replaceState i k start

/-- Receivers of the round-robin family: anything built from `ShardedIterable(data)` by `shard` /
`from_state` (a `DataIterator`'s `from_state` is its config's, io.py:183-184). -/
inductive RRReach (n : Nat) : RRSource → Prop
  | root : RRReach n (RRSource.root n)
  | shard {r r' : RRSource} (i k : Int) : RRReach n r → r.shard i k = .ok r' → RRReach n r'
  | fromState {r r' : RRSource} (i k s : Int) : RRReach n r → r.fromState i k s = .ok r' → RRReach n r'

/-- `_index` after `m` `next` calls of a `DataIterator` started at `_index = idx`. -/
def rrIndexAfter {α : Type} (xs : List α) (i k start : Int) : Nat → Nat → Nat
  | 0, idx => idx
  | m + 1, idx => rrIndexAfter xs i k start m (rrNext xs i k start idx).2

/-! ## `MultiplexIterator` over recoverable sources, `parallism = 0` (iter_utils.py:322-401) -/

/-- `from_state(states)` (iter_utils.py:386-392): `zip(self._data_sources, states, strict=True)`,
`data_source.from_state(ds_state)` in order; a length mismatch raises `ValueError` when the shorter side
runs out (after the common prefix has been rebuilt, so an earlier error wins). -/
def muxFromState : List Source → List ShardConfig → Except ErrKind (List Source)
  | [], [] => .ok []
  | r :: rs, s :: ss => do
    let d ← r.fromState s
    let ds ← muxFromState rs ss
    pure (d :: ds)
  | _, _ => .error .value

/-- `state` (iter_utils.py:394-401): the states of the source iterators, in order. -/
def muxState (its : List SeqIter) : List ShardConfig := its.map SeqIter.state

/-- `next` of `itertools.chain(*source_iterators)`: the first iterator that still delivers. -/
def muxNext {α : Type} (xs : List α) : List SeqIter → Option α × List SeqIter
  | [] => (none, [])
  | it :: its =>
    match it.next xs with
    | (some a, it') => (some a, it' :: its)
    | (none, it') =>
      let r := muxNext xs its
      (r.1, it' :: r.2)

def muxNexts {α : Type} (xs : List α) : Nat → List SeqIter → List (Option α) × List SeqIter
  | 0, its => ([], its)
  | m + 1, its =>
    let r := muxNext xs its
    let rest := muxNexts xs m r.2
    (r.1 :: rest.1, rest.2)

/-- What a multiplexed iterator still has to deliver. -/
def muxRest {α : Type} (xs : List α) (its : List SeqIter) : List α :=
  its.flatMap (SeqIter.rest xs)

end MlModel.Shard
