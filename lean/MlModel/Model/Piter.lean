import MlModel.Model.Queue
/-!
# Parallel iteration (`piter_fn` / `pmap` / `piter` / `piter_multiplex` / `MultiplexIterator`)
as a labelled transition system on top of the `IteratorQueue` LTS (`Model/Queue.lean`).

ml_metrics/_src/utils/iter_utils.py: `_ThreadSafeIterator` (814-826), `DequeueIterator` (829-853),
`piter_multiplex` (996-1027), `piter_fn` (1030-1061), `piter` (1064-1118), `pmap` (1121-1140),
`MultiplexIterator.__init__/maybe_stop/__next__` (325-415).

The queue part of every thread is a `Queue.Thread` and is stepped by `Queue.stepThread` on the one
shared `Queue.Shared`; this file adds what is new, again **one atomic step per synchronisation
operation** (the yield points of `harness/sched/shim.py`), thread-local code fused into the
preceding step:

* thread 0 — the *consumer* (the thread that builds the iterator and iterates it):
  `start` · `submit` (one per producer, `piter_multiplex`'s loop over `thread_pool.submit`) ·
  `DequeueIterator` = the `get_batch` loop of the queue, with `num_steps` (after `k` delivered
  elements the next `__next__` calls `maybe_stop()` and raises `StopIteration()`; what is left in
  its cache is dropped) · for `MultiplexIterator` (`stopOnEnd`) `maybe_stop` of the queue after the
  iteration ended by exhaustion or by an exception · `shutdown` of the pool (enabled iff every
  submitted task has finished: it joins);
* threads 1..P — the *producers*, tasks of the pool running `enqueue_from_iterator(iter_fn(input))`:
  `start` is enabled iff the task was submitted and fewer than `maxWorkers` tasks are running
  (0 = no bound); `next(iterator)` of the queue model is refined into
  `acquire lock1` · `next` · `release lock1` on the input `inputs[sid]` (`_ThreadSafeIterator`, when
  `useLock`; a bare `next` otherwise: `piter_multiplex`, one producer per input) followed by the
  row-wise `iter_fn` `F : Nat → Option (List Nat)` (`none` = the function raises): outputs not yet
  yielded wait in `pend` (a generator yields them one by one without touching the input, and
  keeps pulling — without looking at `enqueue_done` — while `F` returns `[]`).
  When the input is exhausted the generator returns `ret` (`StopIteration(ret)`).

`ignore_error` and `timeout` are never set by `piter_multiplex`, so `init` fixes them to `false` and
the failure branch below is the `ignore_error = False` one.
-/
namespace MlModel.Piter
open MlModel.Queue

/-- where a producer is inside `next(iterator)` (relevant while `q.pc = .eNext`) -/
inductive IPc where
  | acq | next | rel
  deriving DecidableEq, Repr, Inhabited

/-- result of `next(input)` -/
inductive PullRes where
  | item (i : Item)
  | stop
  deriving DecidableEq, Repr, Inhabited

/-- phase of the consumer thread -/
inductive CPc where
  | boot | submit | iter | stopping | shutdown | fin
  deriving DecidableEq, Repr, Inhabited

structure PThread where
  /-- the queue part: program point inside the queue API, `received`, `result`, … -/
  q : Queue.Thread
  isProd : Bool := false
  /-- producer: which input it pulls from, and whether through the `_ThreadSafeIterator` lock -/
  sid : Nat := 0
  useLock : Bool := false
  ipc : IPc := .acq
  /-- pulled under the lock, handed out when the lock is released -/
  hand : PullRes := .stop
  /-- outputs of `F` computed and not yet yielded by the generator -/
  pend : List Nat := []
  /-- ghost: input values this producer pulled, in order -/
  pulled : List Nat := []
  /-- ghost: values this producer put into the queue, in order -/
  emitted : List Nat := []
  /-- consumer -/
  cpc : CPc := .boot
  /-- consumer: how the iteration ended (`StopIteration(*returned)`, the error, or `StopIteration()`
  of an early stop) -/
  iterOutcome : Option Raise := none
  /-- consumer, ghost: the iteration was stopped by `num_steps` -/
  early : Bool := false
  deriving Repr, Inhabited

structure Cfg where
  sh : Shared
  ths : List PThread
  /-- what is left of every input iterator -/
  inputs : List (List Item)
  /-- owner of `_ThreadSafeIterator._lock` -/
  ilock : Option Tid := none
  /-- `max_workers` of the pool, 0 = no bound -/
  maxWorkers : Nat := 0
  /-- tasks submitted so far (thread `k ≥ 1` is submitted iff `k ≤ nsub`) -/
  nsub : Nat := 0
  /-- `DequeueIterator(num_steps = k)`; `none` = run until exhausted -/
  numSteps : Option Nat := none
  /-- `MultiplexIterator.__next__`: call `maybe_stop` when the iteration ends -/
  stopOnEnd : Bool := false
  deriving Repr, Inhabited

def PThread.done (t : PThread) : Bool := if t.isProd then t.q.pc == .done else t.cpc == .fin

def Cfg.nProd (c : Cfg) : Nat := c.ths.length - 1

/-- tasks started and not finished -/
def Cfg.running (c : Cfg) : Nat :=
  (c.ths.filter fun t => t.isProd && t.q.pc != .start && t.q.pc != .done).length

def Cfg.producersDone (c : Cfg) : Bool := c.ths.all fun t => !t.isProd || t.q.pc == .done

def retOf (t : PThread) : Nat := match t.q.prog with | .producer _ r => r | _ => 0

/-- `enqueue_from_iterator` is about to call `next(iterator)` (`q.pc = .eNext` just reached): the
generator first yields what it still holds. -/
def enterNext (tid : Tid) (t : PThread) : PThread :=
  match t.pend with
  | y :: ys => { t with q := { t.q with pc := .pAcq, v := (tid, y) }, pend := ys }
  | [] => { t with ipc := if t.useLock then .acq else .next }

/-- the producer's `next(iterator)` raised `e` (input or `iter_fn` failed):
`self._exception = e; self._stop_enqueue(); raise e` (iter_utils.py:799-811, `ignore_error = False`) -/
def failPull (s : Shared) (t : PThread) : Shared × PThread :=
  ({ s with exc := some .value },
   { t with q := { t.q with pc := .tAcq, rets := [], reraise := some .value } })

/-- what happens with the result of `next(input)` once the producer has it (thread-local) -/
def afterPull (F : Nat → Option (List Nat)) (tid : Tid) (s : Shared) (t : PThread) (r : PullRes) :
    Shared × PThread :=
  match r with
  | .stop => (s, { t with q := { t.q with pc := .tAcq, rets := [retOf t], reraise := none } })
  | .item .fail => failPull s t
  | .item (.val v) =>
    let t1 := { t with pulled := t.pulled ++ [v] }
    match F v with
    | none => failPull s t1
    | some [] => (s, { t1 with ipc := if t.useLock then .acq else .next })
    | some (y :: ys) => (s, { t1 with q := { t1.q with pc := .pAcq, v := (tid, y) }, pend := ys })

/-- `next(input)` on the remaining inputs -/
def pull (inputs : List (List Item)) (sid : Nat) : PullRes × List (List Item) :=
  match inputs[sid]? with
  | some (i :: rest) => (.item i, inputs.set sid rest)
  | _ => (.stop, inputs)

abbrev StepResult := Option (String × Cfg)

def Cfg.setTh (c : Cfg) (tid : Tid) (t : PThread) : Cfg := { c with ths := c.ths.set tid t }

/-- the consumer starts iterating: first `__next__` of the `DequeueIterator` -/
def beginIter (c : Cfg) (t : PThread) : PThread :=
  if c.numSteps == some 0 then
    { t with q := { t.q with pc := .mAcq, prog := .stopper none }, cpc := .stopping, early := true,
             iterOutcome := some (.stop []) }
  else { t with q := { t.q with pc := .bAcq }, cpc := .iter }

/-- after a queue step of the iterating consumer -/
def afterIter (c : Cfg) (pcBefore : Pc) (s : Shared) (t : PThread) : Shared × PThread :=
  if pcBefore == .bRaise then
    -- `get_batch` raised: the iteration is over
    let t1 := { t with iterOutcome := t.q.outcome }
    if c.stopOnEnd then
      (s, { t1 with q := { t1.q with pc := .mAcq, prog := .stopper none }, cpc := .stopping })
    else (s, { t1 with cpc := .shutdown })
  else if pcBefore == .bE3 then
    -- a batch was delivered (iter_utils.py:843-850)
    match c.numSteps with
    | none => (s, t)
    | some k =>
      if t.q.received.length ≥ k then
        ({ s with lost := s.lost ++ t.q.received.drop k },
         { t with q := { t.q with pc := .mAcq, prog := .stopper none, received := t.q.received.take k },
                  cpc := .stopping, early := true, iterOutcome := some (.stop []) })
      else (s, t)
  else (s, t)

/-- after a queue step of a producer: ghost `emitted`, and the generator's pending outputs -/
def postProd (tid : Tid) (t : PThread) (q' : Queue.Thread) : PThread :=
  let t1 := { t with q := q', emitted :=
    if t.q.pc == .pPut && q'.pc == .pStAcq then t.emitted ++ [t.q.v.2] else t.emitted }
  if q'.pc == .eNext then enterNext tid t1 else t1

/-- after a step of the consumer's `maybe_stop` -/
def postStop (t : PThread) (q' : Queue.Thread) : PThread :=
  if q'.pc == .done then { t with q := q', cpc := .shutdown } else { t with q := q' }

/-- One step of thread `tid`. -/
def step (F : Nat → Option (List Nat)) (c : Cfg) (tid : Tid) (alt : Bool) : StepResult :=
  match c.ths[tid]? with
  | none => none
  | some t =>
    if t.isProd then
      -- ------------------------------------------------------------ producer (pool task)
      match t.q.pc with
      | .done => none
      | .start =>
        if alt then none else
        if tid ≤ c.nsub && (c.maxWorkers == 0 || c.running < c.maxWorkers) then
          some ("start", c.setTh tid { t with q := { t.q with pc := .sAcq } })
        else none
      | .eNext =>
        if alt then none else
        match t.ipc with
        | .acq =>
          match c.ilock with
          | some _ => none
          | none => some ("acquire lock1", { c with ilock := some tid, ths := c.ths.set tid { t with ipc := .next } })
        | .next =>
          if t.useLock && c.ilock != some tid then none else
          let r := (pull c.inputs t.sid).1
          let inputs' := (pull c.inputs t.sid).2
          if t.useLock then
            some ("next", { c with inputs := inputs', ths := c.ths.set tid { t with hand := r, ipc := .rel } })
          else
            some ("next", { c with sh := (afterPull F tid c.sh t r).1, inputs := inputs',
                                   ths := c.ths.set tid (afterPull F tid c.sh t r).2 })
        | .rel =>
          if c.ilock != some tid then none else
          some ("release lock1", { c with sh := (afterPull F tid c.sh t t.hand).1, ilock := none,
                                          ths := c.ths.set tid (afterPull F tid c.sh t t.hand).2 })
      | _ =>
        match stepThread c.sh t.q tid alt with
        | none => none
        | some (lbl, s', q') =>
          some (lbl, { c with sh := s', ths := c.ths.set tid (postProd tid t q') })
    else
      -- ------------------------------------------------------------ consumer
      match t.cpc with
      | .fin => none
      | .boot =>
        if alt then none else
        if c.nProd == 0 then some ("start", c.setTh tid (beginIter c t))
        else some ("start", c.setTh tid { t with cpc := .submit })
      | .submit =>
        if alt then none else
        let n := c.nsub + 1
        let t' := if n ≥ c.nProd then beginIter c t else t
        some ("submit", { c with nsub := n, ths := c.ths.set tid t' })
      | .iter =>
        match stepThread c.sh t.q tid alt with
        | none => none
        | some (lbl, s', q') =>
          some (lbl, { c with sh := (afterIter c t.q.pc s' { t with q := q' }).1,
                              ths := c.ths.set tid (afterIter c t.q.pc s' { t with q := q' }).2 })
      | .stopping =>
        match stepThread c.sh t.q tid alt with
        | none => none
        | some (lbl, s', q') =>
          some (lbl, { c with sh := s', ths := c.ths.set tid (postStop t q') })
      | .shutdown =>
        if alt then none else
        if c.producersDone then some ("shutdown", c.setTh tid { t with cpc := .fin }) else none

/-- A producer spec: which input, through the lock or not, generator return value. -/
structure ProdSpec where
  sid : Nat
  useLock : Bool
  ret : Nat
  deriving Repr, Inhabited, DecidableEq

def mkProducer (p : ProdSpec) : PThread :=
  { q := { prog := .producer [] p.ret }, isProd := true, sid := p.sid, useLock := p.useLock }

def mkConsumer (batchMax : Nat) : PThread :=
  { q := { prog := .batchLoop batchMax false } }

/-- `cap` = `buffer_size` (0 = unbounded); `max_enqueuer` is declared up front as the number of
producers (`piter_multiplex`, iter_utils.py:1018-1023). -/
def init (cap batchMax maxWorkers : Nat) (numSteps : Option Nat) (stopOnEnd : Bool)
    (inputs : List (List Item)) (prods : List ProdSpec) : Cfg :=
  { sh := { cap := cap, maxEnq := prods.length, timeout := false, ignoreError := false },
    ths := mkConsumer batchMax :: prods.map mkProducer,
    inputs := inputs, maxWorkers := maxWorkers, numSteps := numSteps, stopOnEnd := stopOnEnd }

/-- `piter_fn` / `pmap`: `p` producers share input 0 through the lock; generator `i` returns `rets i` -/
def sharedSpecs (rets : List Nat) : List ProdSpec := rets.map fun r => { sid := 0, useLock := true, ret := r }

/-- `piter_multiplex`: producer `i` owns input `i` -/
def multiplexSpecs (rets : List Nat) : List ProdSpec :=
  rets.zipIdx.map fun (r, i) => { sid := i, useLock := false, ret := r }

def enabled (F : Nat → Option (List Nat)) (c : Cfg) : List (Tid × Bool) :=
  (List.range c.ths.length).flatMap fun tid =>
    ([false, true].filter fun alt => (step F c tid alt).isSome).map fun alt => (tid, alt)

def Cfg.allDone (c : Cfg) : Bool := c.ths.all (·.done)

def replay (F : Nat → Option (List Nat)) : Cfg → List (Tid × Bool) → List (Tid × String) →
    List (Tid × String) × Cfg × Bool
  | c, [], acc => (acc.reverse, c, true)
  | c, (tid, alt) :: rest, acc =>
    match step F c tid alt with
    | none => (acc.reverse, c, false)
    | some (lbl, c') => replay F c' rest ((tid, lbl) :: acc)

def replayEnabled (F : Nat → Option (List Nat)) : Cfg → List (Tid × Bool) → List (List (Tid × Bool)) →
    List (List (Tid × Bool))
  | c, [], acc => (enabled F c :: acc).reverse
  | c, (tid, alt) :: rest, acc =>
    match step F c tid alt with
    | none => (enabled F c :: acc).reverse
    | some (_, c') => replayEnabled F c' rest (enabled F c :: acc)

/-! ### the row-wise functions used by the correspondence (mirrored in harness/lib_piter.py) -/

inductive FnKind where
  | ident | inc | keepEven | dup | dupOdd
  deriving DecidableEq, Repr, Inhabited

/-- `failOn = some k`: the function raises on input `k` -/
def evalFn (k : FnKind) (failOn : Option Nat) (x : Nat) : Option (List Nat) :=
  if failOn == some x then none else
  match k with
  | .ident => some [x]
  | .inc => some [x + 1]
  | .keepEven => some (if x % 2 == 0 then [x] else [])
  | .dup => some [x, x + 500]
  | .dupOdd => some (if x % 2 == 1 then [x, x + 500] else [])

end MlModel.Piter
