import MlModel.Model.Basic
import MlModel.Model.Agg.Core
/-!
# Checkpoint / resume of data sources and pipelines (property C10)

Mirrors
* `chainables/io.py`: `ShardConfig` (27–32), `SequenceDataSource.shard/from_state/iterate`
  (61–108), `SequenceIterator.state/from_state/__next__` (111–139) — **with the repair of
  finding F1** (`state` adds the offset the config was restored with; `stateOrig` is the
  expression of the unrepaired code and only used by `Witness/C10.lean`);
  `ShardedIterable` / `DataIterator` (142–204);
* `utils/iter_utils.py`: `MultiplexIterator.state/from_state` (379–394): one state per source
  iterator, restore = one fresh iterator per state;
* `chainables/transform.py`: `_RunnerIterator.state/from_state/__next__` (166–203) and
  `_ChainedRunnerIterator.state/from_state` (534–551) for a single runner: a checkpoint is
  *the input iterators' states + a copy of the aggregation state* — nothing else.  Whatever
  the operator chain holds between the source cursor and the consumer (a re-batching carry
  buffer, outputs already computed but not yet yielded, elements in the producer threads'
  queue) is **not** part of the checkpoint; the model makes that buffer explicit so that the
  exact loss can be stated (findings F16, F12).

The interval arithmetic of `shard` is written out locally (the C09 package models `shard`
itself in `Model/Shard.lean`; only "the result does not depend on the offset except by a
shift of the start" is needed here).  Natural-number subtraction: for an offset larger than
the shard the Python `end - start` is negative; that input class is outside this model
(iterators never produce it: the offset of a captured state is at most the shard length).

Copy semantics: `copy.deepcopy` of the aggregation state is value semantics here (states are
immutable Lean values).  The aliasing side of it is probed on the real objects by the harness.
-/
namespace MlModel.Resume

/-! ## Recoverable iterators (types.Recoverable: `state` / `from_state`) -/

/-- An iterator kind with `state` and `from_state`.  `size` bounds the number of further
`next` calls (fuel for the loops of the pipeline model). -/
structure Recoverable (α : Type) where
  It : Type
  St : Type
  /-- `__next__`: `none` = `StopIteration`; the iterator object may have changed even then
  (`DataIterator` keeps the positions it skipped) -/
  next : It → Option α × It
  /-- the `state` property -/
  state : It → St
  /-- `fresh_iterator.from_state(st)` -/
  restore : St → Except ErrKind It
  size : It → Nat

/-- `[next(it) for _ in range(k)]`, stopping at `StopIteration`. -/
def takeN {α : Type} (R : Recoverable α) : Nat → R.It → List α × R.It
  | 0, it => ([], it)
  | k + 1, it =>
    match R.next it with
    | (none, it') => ([], it')
    | (some a, it') => let r := takeN R k it'; (a :: r.1, r.2)

/-! ## `ShardConfig` chains and `SequenceDataSource` -/

/-- One `ShardConfig` node without its `parent` link. -/
structure Cfg where
  idx : Nat
  num : Nat
  off : Nat
  deriving DecidableEq, Repr, Inhabited

/-- `ShardConfig()` -/
def Cfg.dflt : Cfg := ⟨0, 1, 0⟩

/-- A `ShardConfig` with its parents, root first. -/
abbrev Chain := List Cfg

/-- `SequenceDataSource` without its data: `_shard_state`, `_start`, `_end`. -/
structure Src where
  chain : Chain
  start : Nat
  stop : Nat
  deriving DecidableEq, Repr

/-- io.py:65–68, the loop `for i in range(shard_index + 1)`: returns `(start, adjusted_interval)`. -/
def shardLoop (interval remainder idx start : Nat) : Nat × Nat :=
  (List.range (idx + 1)).foldl (fun acc i =>
      let adj := if i < remainder then interval + 1 else interval
      (if i < idx then acc.1 + adj else acc.1, adj)) (start, 0)

/-- the interval `(_start, _end)` computed by `shard` (io.py:62–77) from the receiver's `(start, end)` -/
def shardIval (iv : Nat × Nat) (c : Cfg) : Except ErrKind (Nat × Nat) :=
  if c.num < 1 then .error .value
  else
    let len := iv.2 - iv.1
    let r := shardLoop (len / c.num) (len % c.num) c.idx iv.1
    .ok (r.1 + c.off, r.1 + r.2)

/-- `SequenceDataSource.shard(shard_index, num_shards, offset)` (io.py:61–77). -/
def Src.shard (s : Src) (c : Cfg) : Except ErrKind Src :=
  match shardIval (s.start, s.stop) c with
  | .error e => .error e
  | .ok iv => .ok { chain := s.chain ++ [c], start := iv.1, stop := iv.2 }

/-- `SequenceDataSource(data)` for `len(data) = n`. -/
def Src.root (n : Nat) : Src := ⟨[Cfg.dflt], 0, n⟩

/-- `SequenceDataSource.from_state` (io.py:94–102): replay the chain on a fresh root. -/
def Src.fromState (n : Nat) (st : Chain) : Except ErrKind Src :=
  st.foldlM Src.shard (Src.root n)

/-- `SequenceIterator`: `config`, `_index` (the slice iterator `_it` is at the same position). -/
structure SeqIt where
  src : Src
  index : Nat
  deriving DecidableEq, Repr

def Src.iterate (s : Src) : SeqIt := ⟨s, s.start⟩

/-- `SequenceIterator.__next__` over `data[start:end]`. -/
def SeqIt.next {α : Type} (data : List α) (it : SeqIt) : Option α × SeqIt :=
  if it.index < it.src.stop then
    match data[it.index]? with
    | some a => (some a, { it with index := it.index + 1 })
    | none => (none, it)
  else (none, it)

/-- `SequenceIterator.state` (repaired, F1): `config.state.start_index + _index - config.start`. -/
def SeqIt.state (it : SeqIt) : Chain :=
  match it.src.chain.getLast? with
  | none => []
  | some c => it.src.chain.dropLast ++ [{ c with off := c.off + it.index - it.src.start }]

/-- The unrepaired expression `_index - config.start` (finding F1), used only by the witness. -/
def SeqIt.stateOrig (it : SeqIt) : Chain :=
  match it.src.chain.getLast? with
  | none => []
  | some c => it.src.chain.dropLast ++ [{ c with off := it.index - it.src.start }]

/-- `SequenceIterator.from_state(state)` -/
def SeqIt.restore (n : Nat) (st : Chain) : Except ErrKind SeqIt := do
  let s ← Src.fromState n st
  return s.iterate

/-- `SequenceDataSource` iterators over `data` as a recoverable iterator kind. -/
def seqRec {α : Type} (data : List α) : Recoverable α where
  It := SeqIt
  St := Chain
  next := SeqIt.next data
  state := SeqIt.state
  restore := SeqIt.restore data.length
  size := fun it => it.src.stop - it.index

/-- the same with the unrepaired `state` (witness only) -/
def seqRecOrig {α : Type} (data : List α) : Recoverable α :=
  { seqRec data with state := SeqIt.stateOrig }

/-! ## `ShardedIterable` / `DataIterator` -/

/-- `DataIterator`: `config.state` (`shard_index`, `num_shards`, `start_index`) and `_index`
(= position of `_it` in the underlying iterable). -/
structure IterIt where
  cfg : Cfg
  index : Nat
  deriving DecidableEq, Repr

/-- The two `while` loops and the final `next` of `DataIterator.__next__` (io.py:189–201);
`fuel` bounds the number of `next(self._it)` calls.  Returns the element (if any) and `_index`. -/
def iterNextAux {α : Type} (data : List α) (cfg : Cfg) : Nat → Nat → Option α × Nat
  | 0, i => (none, i)
  | fuel + 1, i =>
    match data[i]? with
    | none => (none, i)                                         -- StopIteration from `next(self._it)`
    | some a =>
      if i < cfg.off ∨ i % cfg.num ≠ cfg.idx then iterNextAux data cfg fuel (i + 1)
      else (some a, i + 1)

def IterIt.next {α : Type} (data : List α) (it : IterIt) : Option α × IterIt :=
  let r := iterNextAux data it.cfg (data.length - it.index + 1) it.index
  (r.1, { it with index := r.2 })

/-- `DataIterator.state` (repaired): `start_index = max(_index, config.state.start_index)` —
`_index` catches up with `start_index` only on the first `next()`. -/
def IterIt.state (it : IterIt) : Cfg := { it.cfg with off := max it.index it.cfg.off }

/-- the unrepaired `dc.replace(config.state, start_index=_index)` (witness only) -/
def IterIt.stateOrig (it : IterIt) : Cfg := { it.cfg with off := it.index }

/-- `ShardedIterable.from_state(st).iterate()`; `__post_init__` rejects `num_shards < 1`. -/
def IterIt.restore (st : Cfg) : Except ErrKind IterIt :=
  if st.num < 1 then .error .value else .ok ⟨st, 0⟩

def iterRec {α : Type} (data : List α) : Recoverable α where
  It := IterIt
  St := Cfg
  next := IterIt.next data
  state := IterIt.state
  restore := IterIt.restore
  size := fun it => data.length - it.index

def iterRecOrig {α : Type} (data : List α) : Recoverable α :=
  { iterRec data with state := IterIt.stateOrig }

/-! ## Histories -/

/-- One step of a history.  `ckpt` captures `it.state` (the iterator keeps running), `restore`
abandons the running iterator and builds a new one from the last captured state (from the
initial state if none was captured).  The brief's `checkpointRestore` is `ckpt` followed by
`restore`. -/
inductive Op where
  | take (k : Nat)
  | ckpt
  | restore
  deriving DecidableEq, Repr

/-- A source iterator under a history.  `committed` = delivered before the last checkpoint,
`tentative` = delivered since (rolled back by `restore`); `log` = what each `take` returned,
in order (the raw observation). -/
structure SrcRun {α : Type} (R : Recoverable α) where
  it : R.It
  saved : R.St
  committed : List α
  tentative : List α
  log : List (List α)

def SrcRun.init {α : Type} (R : Recoverable α) (it : R.It) : SrcRun R :=
  ⟨it, R.state it, [], [], []⟩

def SrcRun.step {α : Type} (R : Recoverable α) (r : SrcRun R) : Op → Except ErrKind (SrcRun R)
  | .take k =>
    let (as, it') := takeN R k r.it
    .ok { r with it := it', tentative := r.tentative ++ as, log := r.log ++ [as] }
  | .ckpt =>
    .ok { r with saved := R.state r.it, committed := r.committed ++ r.tentative, tentative := [] }
  | .restore => do
    let it' ← R.restore r.saved
    .ok { r with it := it', tentative := [] }

def SrcRun.run {α : Type} (R : Recoverable α) (r : SrcRun R) (ops : List Op) :
    Except ErrKind (SrcRun R) :=
  ops.foldlM (SrcRun.step R) r

/-- everything delivered on the surviving timeline -/
def SrcRun.delivered {α : Type} {R : Recoverable α} (r : SrcRun R) : List α :=
  r.committed ++ r.tentative

/-! ## Sequential pipelines (`num_threads = 0`, one runner) -/

/-- The operator chain `iter_fn` of `_RunnerIterator` as an online transducer: `step` consumes
one source element and returns what the chain yields before it asks for the next one; `finish`
is what it yields once the source is exhausted.  `T` is whatever the chain buffers (the carry
of `rebatched_args`); row-wise chains have `T = Unit`. -/
structure Trans (α β T : Type) where
  init : T
  step : T → α → T × List β
  finish : T → List β

/-- a row-wise chain (`apply`/`assign`/`select`/`filter` without batch sizes, error skipping):
every source element yields the list `f a` (at most one element for map/filter). -/
def Trans.ofFn {α β : Type} (f : α → List β) : Trans α β Unit :=
  ⟨(), fun _ a => ((), f a), fun _ => []⟩

/-- re-batching of row lists to `target` rows (`rebatched_args` for one list column, no padding,
`target > 0`): after each input all full slices are emitted, the remainder is carried. -/
def chunkEmit {ρ : Type} (target : Nat) : Nat → List ρ → List ρ × List (List ρ)
  | 0, rows => (rows, [])
  | fuel + 1, rows =>
    if target = 0 ∨ rows.length < target then (rows, [])
    else
      let r := chunkEmit target fuel (rows.drop target)
      (r.1, rows.take target :: r.2)

def Trans.chunk {ρ : Type} (g : List ρ → List ρ) (target : Nat) : Trans (List ρ) (List ρ) (List ρ) where
  init := []
  step := fun carry b => chunkEmit target (carry.length + (g b).length) (carry ++ g b)
  finish := fun carry => if carry.isEmpty then [] else [carry]

/-- `_RunnerIterator` over one recoverable source: the source iterator, the chain's buffer, the
outputs computed but not yet yielded, whether the source reported exhaustion, and `agg_state`. -/
structure PipeIt {α : Type} (R : Recoverable α) (β T S : Type) where
  src : R.It
  t : T
  pending : List β
  done : Bool
  agg : S

/-- what a pipeline is made of: the chain, the aggregate, and how an output is fed to it -/
structure PipeDef (α β T X S Res : Type) where
  tr : Trans α β T
  m : Agg.Mergeable X S Res
  batchOf : β → List X

variable {α β T X S Res ρ : Type}

def PipeIt.fresh (R : Recoverable α) (P : PipeDef α β T X S Res) (src : R.It) (agg : S) :
    PipeIt R β T S :=
  ⟨src, P.tr.init, [], false, agg⟩

/-- `_RunnerIterator.__next__`: pull the generator chain until it yields, then
`agg_state = update_state(agg_state, batch_output)`. -/
def PipeIt.nextAux (R : Recoverable α) (P : PipeDef α β T X S Res) :
    Nat → PipeIt R β T S → Option β × PipeIt R β T S
  | 0, p =>
    match p.pending with
    | b :: rest => (some b, { p with pending := rest, agg := P.m.add p.agg (P.batchOf b) })
    | [] => (none, p)
  | fuel + 1, p =>
    match p.pending with
    | b :: rest => (some b, { p with pending := rest, agg := P.m.add p.agg (P.batchOf b) })
    | [] =>
      if p.done then (none, p)
      else
        match R.next p.src with
        | (none, src') =>
          PipeIt.nextAux R P fuel { p with src := src', pending := P.tr.finish p.t, done := true }
        | (some a, src') =>
          let r := P.tr.step p.t a
          PipeIt.nextAux R P fuel { p with src := src', t := r.1, pending := r.2 }

def PipeIt.next (R : Recoverable α) (P : PipeDef α β T X S Res) (p : PipeIt R β T S) :
    Option β × PipeIt R β T S :=
  PipeIt.nextAux R P (R.size p.src + 2) p

/-- `_RunnerIterator.state`: `(input_states, deepcopy(agg_state))` -/
def PipeIt.state (R : Recoverable α) (p : PipeIt R β T S) : R.St × S := (R.state p.src, p.agg)

/-- `_RunnerIterator.from_state`: fresh source iterator from its state, **fresh chain**, the saved
aggregation state. -/
def PipeIt.restore (R : Recoverable α) (P : PipeDef α β T X S Res) (st : R.St × S) :
    Except ErrKind (PipeIt R β T S) := do
  let src ← R.restore st.1
  return PipeIt.fresh R P src st.2

def pipeTakeN (R : Recoverable α) (P : PipeDef α β T X S Res) :
    Nat → PipeIt R β T S → List β × PipeIt R β T S
  | 0, p => ([], p)
  | k + 1, p =>
    match PipeIt.next R P p with
    | (none, p') => ([], p')
    | (some b, p') => let r := pipeTakeN R P k p'; (b :: r.1, r.2)

/-- A pipeline iterator is itself a recoverable iterator (`_RunnerIterator` has `state` and
`from_state`): in a chain of named transforms the downstream runner's data source is the upstream
runner's iterator, its input state is the upstream `_IteratorState`, and restoring the downstream
iterator restores the upstream one as its data source (`MultiplexIterator.from_state`). -/
def pipeRec (R : Recoverable α) (P : PipeDef α β T X S Res) : Recoverable β where
  It := PipeIt R β T S
  St := R.St × S
  next := PipeIt.next R P
  state := PipeIt.state R
  restore := PipeIt.restore R P
  size := fun p => R.size p.src + p.pending.length

/-- an event of the surviving timeline: an output delivered to the consumer, or rows that were
held by the chain at a checkpoint from which the pipeline was later restored (never delivered) -/
inductive Ev (β ρ : Type) where
  | dlv (b : β)
  | lost (rows : List ρ)
  deriving Repr

def Ev.delivered : List (Ev β ρ) → List β
  | [] => []
  | .dlv b :: es => b :: Ev.delivered es
  | .lost _ :: es => Ev.delivered es

def Ev.lostRows : List (Ev β ρ) → List ρ
  | [] => []
  | .dlv _ :: es => Ev.lostRows es
  | .lost r :: es => r ++ Ev.lostRows es

/-- how outputs / buffers / source elements decompose into rows (for stating conservation) -/
structure RowView (α β T ρ : Type) where
  rows : β → List ρ
  bufRows : T → List ρ
  srcRows : α → List ρ

def Ev.allRows (V : RowView α β T ρ) : List (Ev β ρ) → List ρ
  | [] => []
  | .dlv b :: es => V.rows b ++ Ev.allRows V es
  | .lost r :: es => r ++ Ev.allRows V es

/-- rows the chain holds between the source cursor and the consumer -/
def PipeIt.heldRows {R : Recoverable α} (V : RowView α β T ρ) (p : PipeIt R β T S) : List ρ :=
  p.pending.flatMap V.rows ++ (if p.done then [] else V.bufRows p.t)

/-- A pipeline under a history.  `saved` is the checkpoint (exactly what the code captures);
`savedTrace`/`savedHeld` are ghost: the committed trace and the rows the chain held at that
moment. -/
structure PipeRun {α : Type} (R : Recoverable α) (β T S ρ : Type) where
  p : PipeIt R β T S
  saved : R.St × S
  savedTrace : List (Ev β ρ)
  savedHeld : List ρ
  trace : List (Ev β ρ)
  log : List (List β)

def PipeRun.init (R : Recoverable α) (P : PipeDef α β T X S Res) (src : R.It) :
    PipeRun R β T S ρ :=
  let p := PipeIt.fresh R P src P.m.empty
  ⟨p, PipeIt.state R p, [], [], [], []⟩

def PipeRun.step (R : Recoverable α) (P : PipeDef α β T X S Res) (V : RowView α β T ρ)
    (r : PipeRun R β T S ρ) : Op → Except ErrKind (PipeRun R β T S ρ)
  | .take k =>
    let o := pipeTakeN R P k r.p
    .ok { r with p := o.2, trace := r.trace ++ o.1.map Ev.dlv, log := r.log ++ [o.1] }
  | .ckpt =>
    .ok { r with saved := PipeIt.state R r.p, savedTrace := r.trace,
                 savedHeld := PipeIt.heldRows V r.p }
  | .restore => do
    let p' ← PipeIt.restore R P r.saved
    .ok { r with p := p',
                 trace := r.savedTrace ++ (if r.savedHeld.isEmpty then [] else [Ev.lost r.savedHeld]) }

def PipeRun.run (R : Recoverable α) (P : PipeDef α β T X S Res) (V : RowView α β T ρ)
    (r : PipeRun R β T S ρ) (ops : List Op) : Except ErrKind (PipeRun R β T S ρ) :=
  ops.foldlM (PipeRun.step R P V) r

/-! ## Threaded pipelines (`num_threads > 0`): producers run ahead of the consumer

`MultiplexIterator` with `parallism > 0` starts one producer per source iterator
(`piter_multiplex`); each producer repeatedly takes the next element of *its* iterator, runs
the row-wise chain on it and puts the outputs into the shared queue; the consumer takes
outputs from the queue.  A checkpoint reads the **producers'** iterators' states.  The model
is a transition system whose schedule (`pull i` / `deliver j`) is an input; `buf` is everything
between a source cursor and the consumer (an element in a producer's hand, the queue, a batch
dequeued but not yet yielded).  `deliver j` may pick any buffered element, which
over-approximates the FIFO-per-producer order of the real queue. -/

structure ParSt {α : Type} (R : Recoverable α) (β S : Type) where
  cursors : List R.It
  buf : List β
  agg : S

inductive ParOp where
  | pull (i : Nat)
  | deliver (j : Nat)
  | ckpt
  | restore
  deriving DecidableEq, Repr

structure ParRun {α : Type} (R : Recoverable α) (β S : Type) where
  s : ParSt R β S
  saved : List R.St × S
  savedDelivered : List β
  savedLost : List β
  savedBuf : List β
  delivered : List β
  lost : List β

def ParRun.init (R : Recoverable α) (empty : S) (cursors : List R.It) : ParRun R β S :=
  ⟨⟨cursors, [], empty⟩, (cursors.map R.state, empty), [], [], [], [], []⟩

/-- `restore` of every input state (`MultiplexIterator.from_state`, `zip(..., strict=True)`) -/
def restoreAll (R : Recoverable α) : List R.St → Except ErrKind (List R.It)
  | [] => .ok []
  | st :: sts => do
    let it ← R.restore st
    let its ← restoreAll R sts
    return it :: its

/-- One step; a step that is not enabled (no such producer / exhausted source / no such buffered
element) leaves the configuration unchanged. -/
def ParRun.step (R : Recoverable α) (f : α → List β) (add : S → β → S) (r : ParRun R β S) :
    ParOp → Except ErrKind (ParRun R β S)
  | .pull i =>
    match r.s.cursors[i]? with
    | none => .ok r
    | some it =>
      match R.next it with
      | (none, it') => .ok { r with s := { r.s with cursors := r.s.cursors.set i it' } }
      | (some a, it') =>
        .ok { r with s := { r.s with cursors := r.s.cursors.set i it', buf := r.s.buf ++ f a } }
  | .deliver j =>
    match r.s.buf[j]? with
    | none => .ok r
    | some b =>
      .ok { r with s := { r.s with buf := r.s.buf.eraseIdx j, agg := add r.s.agg b },
                   delivered := r.delivered ++ [b] }
  | .ckpt =>
    .ok { r with saved := (r.s.cursors.map R.state, r.s.agg), savedDelivered := r.delivered,
                 savedLost := r.lost, savedBuf := r.s.buf }
  | .restore => do
    let cs ← restoreAll R r.saved.1
    .ok { r with s := ⟨cs, [], r.saved.2⟩, delivered := r.savedDelivered,
                 lost := r.savedLost ++ r.savedBuf }

def ParRun.run (R : Recoverable α) (f : α → List β) (add : S → β → S) (r : ParRun R β S)
    (ops : List ParOp) : Except ErrKind (ParRun R β S) :=
  ops.foldlM (ParRun.step R f add) r

end MlModel.Resume
