import MlModel.Model.Basic
/-!
# `ml_metrics/_src/utils/math_utils.py` over ℚ ∪ {NaN}

A float is `F = Option Rat` (`none` = NaN); IEEE rounding is outside the model (DESIGN §3).
The helpers are written out literally, because the defects live in their corner cases
(`0 * NaN = NaN`, `nanadd(NaN, NaN) = NaN`, `safe_divide(a, 0) = 0`).
-/
namespace MlModel.Agg.Rolling

/-- float64 with NaN -/
abbrev F := Option Rat

/-- `math_utils.safe_divide` (math_utils.py:30): `a / b`, but `0` where `b == 0`
— written out, never delegated to Lean's `x / 0 = 0`. -/
def safeDivide (a b : Rat) : Rat := if b = 0 then 0 else a / b

/-- IEEE `+` : NaN is absorbing -/
def fadd : F → F → F
  | some a, some b => some (a + b)
  | _, _ => none

/-- IEEE `*` : NaN is absorbing — in particular `0 * NaN = NaN` (§7-F2) -/
def fmul : F → F → F
  | some a, some b => some (a * b)
  | _, _ => none

/-- unary minus -/
def fneg : F → F
  | some a => some (-a)
  | none => none

/-- `math_utils.where(cond, x, y)` for scalars (math_utils.py:73) -/
def fwhere {α : Type} (c : Bool) (x y : α) : α := if c then x else y

/-- `math_utils.nanadd` (math_utils.py:80–85), literally:
`result = where(a_nan, 0, a) + where(b_nan, 0, b); where(a_nan & b_nan, nan, result)` -/
def nanadd (a b : F) : F :=
  let aNan := a.isNone
  let bNan := b.isNone
  let result : Rat := fwhere aNan 0 (a.getD 0) + fwhere bNan 0 (b.getD 0)
  fwhere (aNan && bNan) none (some result)

/-- `list.sum` of rationals (Python `sum`, `np.sum`) -/
def rsum (xs : List Rat) : Rat := xs.foldr (· + ·) 0

/-- `abs` -/
def rabs (x : Rat) : Rat := if x < 0 then -x else x

/-- the non-NaN entries of a column (what `np.nan*` reductions look at) -/
def valid (xs : List F) : List Rat := xs.filterMap id

end MlModel.Agg.Rolling
