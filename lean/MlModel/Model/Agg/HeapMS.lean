import MlModel.Model.Agg.HeapObs
/-!
# `merge_states` over MANY states as an operation of the heap histories (work package SC11)

`MergeableMetricAggFn.merge_states` (aggregates/base.py:195–200):

```
iter_states = iter(states)
result = next(iter_states)          # an empty `states` raises here, before anything is touched
for state in iter_states:
  result.merge(state)               # the receiver is ALWAYS the first state
return result
```

"Only the first state may be modified and returned" (base.py:130–131).  `Model/Agg/Heap.lean` has
`merge i j` only, so a call over 4, 5, 8, 9 … states was a *sequence of operations chosen by the
harness*; a reduction that merges in pairwise rounds (seeded regression C11-m3) is a different
sequence and was therefore not a statement about the model at all.  Here the call is ONE operation
of the alphabet:

* `Sys.mergeStates σ ids` — the loop above on the accumulators numbered `ids` (first = receiver);
  `OpM` / `Sys.stepM` / `Sys.runM` — histories of make / add / merge / **mergeStates**;
* `SysR.mergeStates`, `OpRM`, `SysR.stepM`, `SysR.runM` — the same over populations that also hold
  every value the caller was handed (`Model/Agg/HeapObs.lean`: result / poke);
* `Sys.mergeStatesRounds` — the pairwise-rounds reduction of the seeded regression
  (`for left, right in zip(states[::2], states[1::2]): left.merge(right); states = states[::2]`),
  used by `Witness/C11MergeStates.lean` only.

`ConfusionMatrixAggFn.merge_states` (classification.py:642–660) is its own loop (skips `None`
states, merges into a copy when the first non-`None` state is not the first state); its binary form
is `cls.merge` of `Model/Agg/CmStateHeap.lean`, the n-ary loop is `SH.mergeStatesN` in
`Model/Agg/CmStateMS.lean`, proved equal to the fold used here.

As in `Sys.step`, `merge i i` is the identity of the model (the harness never passes one object
twice; `s.merge(s)` of the real classes is outside the modelled domain).
-/
namespace MlModel.Agg.Heap

variable {C B : Type}

/-- `for state in iter_states: result.merge(state)` with `result = accs[i]` -/
def Sys.mergeInto {cls : HClass C B} (σ : Sys cls) (i : Nat) (js : List Nat) : Sys cls :=
  js.foldl (fun σ j => σ.step (.merge i j)) σ

/-- `accs[ids[0]] = merge_states([accs[k] for k in ids])` (base.py:195); an empty list raises
`StopIteration` at `next(iter_states)` and leaves the population as it was -/
def Sys.mergeStates {cls : HClass C B} (σ : Sys cls) : List Nat → Sys cls
  | [] => σ
  | i :: js => σ.mergeInto i js

/-- does the call raise?  (`next()` of an exhausted iterator) -/
def mergeStatesRaises : List Nat → Bool
  | [] => true
  | _ => false

/-- histories whose alphabet contains the n-ary call -/
inductive OpM (B : Type) where
  | base (op : Op B)
  /-- `merge_states([accs[k] for k in ids])` -/
  | mergeStates (ids : List Nat)

/-- the only accumulator an operation may modify -/
def OpM.receiver : OpM B → Option Nat
  | .base op => op.receiver
  | .mergeStates ids => ids.head?

def Sys.stepM {cls : HClass C B} (σ : Sys cls) : OpM B → Sys cls
  | .base op => σ.step op
  | .mergeStates ids => σ.mergeStates ids

def Sys.runM {cls : HClass C B} (σ : Sys cls) (ops : List (OpM B)) : Sys cls := ops.foldl Sys.stepM σ

/-- the same history written with binary merges only -/
def OpM.flatten : OpM B → List (Op B)
  | .base op => [op]
  | .mergeStates [] => []
  | .mergeStates (i :: js) => js.map (Op.merge i)

/-! ## populations with returned values -/

def SysR.mergeInto {cls : HClassR C B} (σ : SysR cls) (i : Nat) (js : List Nat) : SysR cls :=
  js.foldl (fun σ j => σ.step (.base (.merge i j))) σ

def SysR.mergeStates {cls : HClassR C B} (σ : SysR cls) : List Nat → SysR cls
  | [] => σ
  | i :: js => σ.mergeInto i js

inductive OpRM (B C : Type) where
  | r (op : OpR B C)
  | mergeStates (ids : List Nat)

def OpRM.receiver : OpRM B C → Option Nat
  | .r op => op.receiver
  | .mergeStates ids => ids.head?

def SysR.stepM {cls : HClassR C B} (σ : SysR cls) : OpRM B C → SysR cls
  | .r op => σ.step op
  | .mergeStates ids => σ.mergeStates ids

def SysR.runM {cls : HClassR C B} (σ : SysR cls) (ops : List (OpRM B C)) : SysR cls :=
  ops.foldl SysR.stepM σ

def OpRM.flatten : OpRM B C → List (OpR B C)
  | .r op => [op]
  | .mergeStates [] => []
  | .mergeStates (i :: js) => js.map fun j => .base (.merge i j)

/-! ## the pairwise-rounds reduction of the seeded regression C11-m3 (witness only) -/

/-- `xs[::2]` -/
def evens {α : Type} : List α → List α
  | [] => []
  | [a] => [a]
  | a :: _ :: rest => a :: evens rest

/-- `zip(xs[::2], xs[1::2])` -/
def pairsOf {α : Type} : List α → List (α × α)
  | a :: b :: rest => (a, b) :: pairsOf rest
  | _ => []

/-- one round: `for left, right in zip(states[::2], states[1::2]): left.merge(right)` -/
def Sys.mergeRound {cls : HClass C B} (σ : Sys cls) (ids : List Nat) : Sys cls :=
  (pairsOf ids).foldl (fun σ p => σ.step (.merge p.1 p.2)) σ

/-- `while len(states) > 1: <round>; states = states[::2]` (`fuel` ≥ number of rounds; `ids.length` suffices) -/
def Sys.mergeStatesRoundsAux {cls : HClass C B} : Nat → Sys cls → List Nat → Sys cls
  | 0, σ, _ => σ
  | fuel + 1, σ, ids => if ids.length ≤ 1 then σ else mergeStatesRoundsAux fuel (σ.mergeRound ids) (evens ids)

def Sys.mergeStatesRounds {cls : HClass C B} (σ : Sys cls) (ids : List Nat) : Sys cls :=
  Sys.mergeStatesRoundsAux ids.length σ ids

end MlModel.Agg.Heap
