import MlModel.Model.Agg.Text
/-!
# The text accumulators as *objects on a heap* (for C11: operand safety, aliasing)

A purely functional model makes "merge never damages its operand" true by construction.  Here an
accumulator object holds a **reference** (`ctr : Nat`, an address) to its `collections.Counter` cell and
an immutable `count`; every Python statement is classified as

* `alloc`  — `collections.Counter()` / `FrequencyState()` / `cls()` create a new cell,
* `write`  — `self.counter.update(...)` mutates the cell the receiver references,
* rebinding an int attribute (`self.count += ...`) replaces a value inside the accumulator record.

`step` interprets a program of `make / add / merge / result` calls over any number of accumulators; this
is what the compiled driver executes and what is compared with the real objects (including after
later updates of either side: the aliasing probes).  `pstep` is the value semantics (each accumulator
is a `FreqState` value, nothing can be shared); `Lemmas/AggTextHeap.lean` proves that the heap
semantics refines it for **every** program, which is exactly "no update leaks into another object".
`stepAlias` is a deliberately wrong variant (adopts the operand's container when the receiver is
empty) used by `Witness/C11Text.lean` to show the model can tell the difference.
-/
namespace MlModel.Agg.Text

/-- the metric a family of accumulators was built for -/
inductive Metric where
  | ngrams (cfg : NGramCfg)
  | patterns (cfg : PatCfg)

/-- the batch state `add(texts)` builds before merging it into `self._state` -/
def Metric.batch : Metric → List Str → FreqState Str
  | .ngrams cfg => ngramBatch cfg
  | .patterns cfg => patBatch cfg

/-- what `result()` / the return value of `add` do with the sorted rows: `[:k]` or nothing -/
def Metric.view : Metric → List (Str × Rat) → List (Str × Rat)
  | .ngrams cfg => List.take cfg.k
  | .patterns _ => id

/-- `result()` of an accumulator in state `s` -/
def Metric.result (m : Metric) (s : FreqState Str) : List (Str × Rat) := m.view (s.result strLe)

/-- the metric as a `Mergeable` (same functions as `topK` / `patFreq`) -/
def Metric.mergeable : Metric → Mergeable Str (FreqState Str) (List (Str × Rat))
  | .ngrams cfg => topK cfg
  | .patterns cfg => patFreq cfg

/-- one accumulator object: `_state.counter` (an address) and `_state.count` -/
structure Acc where
  ctr : Nat
  count : Nat
  deriving Repr, DecidableEq

structure World where
  /-- cell `r` = contents of the `Counter` object at address `r` -/
  heap : List (Counter Str) := []
  /-- the accumulators created so far, by number -/
  accs : List Acc := []

inductive Op where
  /-- `cls(**cfg)` / `agg_fn.create_state()` -/
  | make
  /-- `accs[i].add(texts)` / `update_state` -/
  | add (i : Nat) (texts : List Str)
  /-- `accs[i].merge(accs[j])` -/
  | merge (i j : Nat)
  /-- `accs[i].result()` -/
  | result (i : Nat)

namespace World

def read (w : World) (r : Nat) : Counter Str := w.heap.getD r []

/-- the value an accumulator currently denotes -/
def state (w : World) (a : Acc) : FreqState Str := ⟨w.read a.ctr, a.count⟩

/-- `FrequencyState.merge(receiver, other)` (utils.py:72): one `write` to the receiver's cell with
entries *computed from* the operand's cell, and a rebinding of the receiver's `count` -/
def mergeInto (w : World) (i : Nat) (other : Acc) : World :=
  match w.accs[i]? with
  | none => w
  | some a =>
    { heap := w.heap.set a.ctr (update (w.read a.ctr) (w.read other.ctr)),
      accs := w.accs.set i { a with count := a.count + other.count } }

/-- WRONG on purpose: a merge that *adopts the operand's container* when the receiver is still
empty (`if not self.counter: self.counter = other.counter`) -/
def mergeIntoAlias (w : World) (i : Nat) (other : Acc) : World :=
  match w.accs[i]? with
  | none => w
  | some a =>
    if w.read a.ctr = [] then
      { w with accs := w.accs.set i { ctr := other.ctr, count := a.count + other.count } }
    else w.mergeInto i other

end World

/-- what one call returns (`none`: nothing observable) -/
abbrev Obs := Option (List (Str × Rat))

/-- one call on the heap -/
def stepWith (mergeInto : World → Nat → Acc → World) (m : Metric) (w : World) : Op → World × Obs
  | .make =>
    ({ heap := w.heap ++ [[]], accs := w.accs ++ [⟨w.heap.length, 0⟩] }, none)
  | .add i texts =>
    -- text.py:86/156: the batch counter is a new object; text.py:101/169: merged into `self._state`
    let b := m.batch texts
    let w1 : World := { w with heap := w.heap ++ [b.counter] }
    (mergeInto w1 i ⟨w.heap.length, b.count⟩, some (m.result b))
  | .merge i j =>
    match w.accs[j]? with
    | none => (w, none)
    | some o => (mergeInto w i o, none)
  | .result i =>
    match w.accs[i]? with
    | none => (w, none)
    | some a => (w, some (m.result (w.state a)))

def step := stepWith World.mergeInto
def stepAlias := stepWith World.mergeIntoAlias

/-- run a program, collecting what every call returned -/
def runWith (st : World → Op → World × Obs) : World → List Op → World × List Obs
  | w, [] => (w, [])
  | w, op :: ops =>
    let (w1, o) := st w op
    let (w2, os) := runWith st w1 ops
    (w2, o :: os)

def run (m : Metric) := runWith (step m)
def runAlias (m : Metric) := runWith (stepAlias m)

/-! ## value semantics: every accumulator is a `FreqState` value -/

def pmergeInto (ps : List (FreqState Str)) (i : Nat) (o : FreqState Str) : List (FreqState Str) :=
  match ps[i]? with
  | none => ps
  | some s => ps.set i (s.merge o)

def pstep (m : Metric) (ps : List (FreqState Str)) : Op → List (FreqState Str) × Obs
  | .make => (ps ++ [FreqState.empty], none)
  | .add i texts => let b := m.batch texts; (pmergeInto ps i b, some (m.result b))
  | .merge i j =>
    match ps[j]? with
    | none => (ps, none)
    | some o => (pmergeInto ps i o, none)
  | .result i =>
    match ps[i]? with
    | none => (ps, none)
    | some s => (ps, some (m.result s))

def prun (m : Metric) : List (FreqState Str) → List Op → List (FreqState Str) × List Obs
  | ps, [] => (ps, [])
  | ps, op :: ops =>
    let (ps1, o) := pstep m ps op
    let (ps2, os) := prun m ps1 ops
    (ps2, o :: os)

/-- the values denoted by a heap world -/
def World.abs (w : World) : List (FreqState Str) := w.accs.map w.state

end MlModel.Agg.Text
