import MlModel.Model.Agg.Core
/-!
# The text aggregates (ml_metrics/_src/aggregates/text.py, aggregates/utils.py: FrequencyState)

A Python `str` is a `List Char` (`Str`); `collections.Counter` is an insertion-ordered association
list (`Counter`), because a `dict` iterates in insertion order and `FrequencyState.result`
iterates `self.counter.items()` before sorting.  Everything here is core Lean (no Mathlib) and
executable; the compiled driver (`Driver/AggText.lean`) runs exactly these definitions.

* `FreqState`  — utils.py:62–82 (`FrequencyState.merge`, `.result`)
* `ngramBatch` — text.py:85–100 (`TopKWordNGrams.add`, the batch counter)
* `patBatch`   — text.py:155–168 (`PatternFrequency.add`, the batch counter)
* `topK`, `patFreq` — the two metrics as `Mergeable` instances (`add = merge ∘ ofBatch`)
-/
namespace MlModel.Agg.Text

/-- a Python `str` -/
abbrev Str := List Char

/-- `a <= b` on `str`: lexicographic by code point; a proper prefix is smaller -/
def strLe : Str → Str → Bool
  | [], _ => true
  | _ :: _, [] => false
  | a :: as, b :: bs => decide (a < b) || (a == b && strLe as bs)

/-! ## `collections.Counter` -/

/-- insertion-ordered `dict[K, int]` -/
abbrev Counter (K : Type) := List (K × Nat)

section Counter
variable {K : Type} [DecidableEq K]

/-- `c[k] = c.get(k, 0) + v`: an existing key keeps its position, a new key is appended
(also `c[k] += v` through `Counter.__missing__`, which creates the key even when `v = 0`) -/
def bump : Counter K → K → Nat → Counter K
  | [], k, v => [(k, v)]
  | (k', v') :: rest, k, v =>
    if k' = k then (k', v' + v) :: rest else (k', v') :: bump rest k v

/-- `Counter.update(mapping)`: `for k, v in other.items(): self[k] = v + self.get(k, 0)`;
the receiver gets *new entries* — the operand's container is only read -/
def update (c other : Counter K) : Counter K :=
  other.foldl (fun acc kv => bump acc kv.1 kv.2) c

/-- `Counter.update(iterable)`: `for k in iterable: self[k] = self.get(k, 0) + 1` -/
def countAll (c : Counter K) (ks : List K) : Counter K :=
  ks.foldl (fun acc k => bump acc k 1) c

/-- `c.get(k, 0)` -/
def get : Counter K → K → Nat
  | [], _ => 0
  | (k', v) :: rest, k => if k' = k then v else get rest k

/-- `list(c.keys())` -/
def keys (c : Counter K) : List K := c.map Prod.fst

/-- `set(xs)` as far as it can be observed here (its iteration order is hash order, which only
decides the insertion order of new Counter keys, and `result()` sorts by a total order) -/
def dedup : List K → List K
  | [] => []
  | a :: l => if a ∈ dedup l then dedup l else a :: dedup l

end Counter

/-! ## `FrequencyState` (utils.py:62) -/

structure FreqState (K : Type) where
  /-- `counter: collections.Counter[str]` -/
  counter : Counter K
  /-- `count: int` — the number of texts seen -/
  count : Nat
  deriving Repr, DecidableEq

/-- `math_utils.safe_divide(value, count)` on two non-negative ints -/
def safeDiv (a b : Nat) : Rat := if b = 0 then 0 else (a : Rat) / (b : Rat)

/-- `(-x[1], x[0]) <= (-y[1], y[0])` as Python compares tuples -/
def rowLe {K : Type} (le : K → K → Bool) (a b : K × Rat) : Bool :=
  decide (b.2 < a.2) || (a.2 == b.2 && le a.1 b.1)

namespace FreqState
variable {K : Type} [DecidableEq K]

/-- `FrequencyState()` -/
def empty : FreqState K := ⟨[], 0⟩

/-- utils.py:72 `merge`: `self.counter.update(other.counter); self.count += other.count` -/
def merge (s o : FreqState K) : FreqState K :=
  ⟨update s.counter o.counter, s.count + o.count⟩

/-- utils.py:77–80: the unsorted rows `[(key, safe_divide(value, self.count)) for ...items()]` -/
def rows (s : FreqState K) : List (K × Rat) :=
  s.counter.map fun kv => (kv.1, safeDiv kv.2 s.count)

/-- utils.py:76 `result`: `sorted(rows, key=lambda x: (-x[1], x[0]))` (a stable sort) -/
def result (le : K → K → Bool) (s : FreqState K) : List (K × Rat) :=
  s.rows.mergeSort (rowLe le)

end FreqState

/-! ## `TopKWordNGrams` (text.py:28) -/

structure NGramCfg where
  k : Nat
  n : Nat
  /-- `use_first_ngram_only` -/
  firstOnly : Bool := false
  /-- `count_duplicate` -/
  countDup : Bool := true
  deriving Repr

/-- text.py:65 `__post_init__` (and metrics/text.py:62): `k <= 0 or n <= 0` raises `ValueError` -/
def NGramCfg.make (k n : Int) (firstOnly countDup : Bool) : Except ErrKind NGramCfg :=
  if k ≤ 0 ∨ n ≤ 0 then .error .value
  else .ok { k := k.toNat, n := n.toNat, firstOnly := firstOnly, countDup := countDup }

/-- the characters `re.sub(r'[^a-zA-Z ]+', '', text)` keeps: ASCII letters and the space -/
def keep (c : Char) : Bool := c.isAlpha || c == ' '

/-- `re.sub(r'[^a-zA-Z ]+', '', text).lower()` — only ASCII letters survive the substitution, so
`str.lower` acts as the ASCII `toLower` -/
def normalize (t : Str) : Str := (t.filter keep).map Char.toLower

/-- `s.split(' ')`: the fields between single spaces, empty fields included (never `[]`) -/
def fields : Str → List Str
  | [] => [[]]
  | c :: cs =>
    match fields cs with
    | [] => [[]]
    | w :: ws => if c = ' ' then [] :: w :: ws else (c :: w) :: ws

/-- `s.split()` on a string whose only white-space character is `' '` (true after `normalize`):
the non-empty fields -/
def splitWords (s : Str) : List Str := (fields s).filter (· ≠ [])

/-- text.py:89 `words` -/
def words (t : Str) : List Str := splitWords (normalize t)

/-- `' '.join(ws)` -/
def join (ws : List Str) : Str := List.intercalate [' '] ws

/-- text.py:95–96: `[words[idx : idx + n] for idx in range(len(words) - n + 1)]` -/
def windows (n : Nat) (ws : List Str) : List (List Str) :=
  (List.range (ws.length - n + 1)).map fun i => (ws.drop i).take n

/-- text.py:89–98: the n-grams one text contributes to the batch counter -/
def textNGrams (cfg : NGramCfg) (t : Str) : List Str :=
  let ws := words t
  if cfg.n ≤ ws.length then
    let g := if cfg.firstOnly then [join (ws.take cfg.n)] else (windows cfg.n ws).map join
    if cfg.countDup then g else dedup g
  else []

/-- text.py:86–100: `batch_result = FrequencyState(counter=ngrams_counter, count=len(texts))` -/
def ngramBatch (cfg : NGramCfg) (texts : List Str) : FreqState Str :=
  ⟨texts.foldl (fun c t => countAll c (textNGrams cfg t)) [], texts.length⟩

/-- `TopKWordNGrams`: truncation to `k` happens in `result()` only (text.py:111); `merge` works on the
full counters (text.py:108) -/
def topK (cfg : NGramCfg) : Mergeable Str (FreqState Str) (List (Str × Rat)) where
  empty := FreqState.empty
  ofBatch := ngramBatch cfg
  merge := FreqState.merge
  result s := (s.result strLe).take cfg.k

/-- the value `add(texts)` returns (text.py:103): the top-k of *that batch* -/
def topKAddRet (cfg : NGramCfg) (texts : List Str) : List (Str × Rat) :=
  ((ngramBatch cfg texts).result strLe).take cfg.k

/-! ## `PatternFrequency` (text.py:114) -/

structure PatCfg where
  patterns : List Str
  /-- `count_duplicate` -/
  countDup : Bool := true
  deriving Repr

/-- text.py:137 `__post_init__`: empty or repeated patterns raise `ValueError` -/
def PatCfg.make (patterns : List Str) (countDup : Bool) : Except ErrKind PatCfg :=
  if patterns = [] ∨ (dedup patterns).length ≠ patterns.length then .error .value
  else .ok { patterns := patterns, countDup := countDup }

/-- all suffixes of `t`, from `t` itself down to `""`: the positions a regex search can start at -/
def suffixes : Str → List Str
  | [] => [[]]
  | c :: cs => (c :: cs) :: suffixes cs

/-- `len(list(re.finditer('(?=(' + re.escape(p) + '))', t)))`: one zero-width match at every position where
`p` starts (overlapping occurrences all count; `""` matches at all `len(t) + 1` positions) -/
def occurrences (p t : Str) : Nat := (suffixes t).countP fun s => p.isPrefixOf s

/-- `t.find(p) >= 0` -/
def contains (p t : Str) : Bool := (suffixes t).any fun s => p.isPrefixOf s

/-- text.py:159–166 `num_matches` -/
def numMatches (cfg : PatCfg) (p t : Str) : Nat :=
  if cfg.countDup then occurrences p t else if contains p t then 1 else 0

/-- text.py:156–168: `for pattern: for text: counter[pattern] += num_matches`; `count = len(texts)` -/
def patBatch (cfg : PatCfg) (texts : List Str) : FreqState Str :=
  ⟨cfg.patterns.foldl (fun c p => texts.foldl (fun c t => bump c p (numMatches cfg p t)) c) [],
   texts.length⟩

/-- `PatternFrequency` (no truncation at all) -/
def patFreq (cfg : PatCfg) : Mergeable Str (FreqState Str) (List (Str × Rat)) where
  empty := FreqState.empty
  ofBatch := patBatch cfg
  merge := FreqState.merge
  result s := s.result strLe

/-! ## the one-shot functions (metrics/text.py) -/

/-- metrics/text.py:26 `topk_word_ngrams`: validate `k`, `n`, then
`TopKWordNGrams(...).as_agg_fn()(texts)`, i.e. `AggregateFn.__call__` (base.py:153) =
`get_result(update_state(create_state(), texts))` -/
def topkWordNGramsFn (k n : Int) (firstOnly countDup : Bool) (texts : List Str) :
    Except ErrKind (List (Str × Rat)) :=
  match NGramCfg.make k n firstOnly countDup with
  | .error e => .error e
  | .ok cfg => let m := topK cfg; .ok (m.result (m.add m.empty texts))

/-- metrics/text.py:77 `pattern_frequency` -/
def patternFrequencyFn (patterns : List Str) (countDup : Bool) (texts : List Str) :
    Except ErrKind (List (Str × Rat)) :=
  match PatCfg.make patterns countDup with
  | .error e => .error e
  | .ok cfg => let m := patFreq cfg; .ok (m.result (m.add m.empty texts))

/-! ## `avg_alphabetical_char_count` (metrics/text.py:109, signals/text.py:22) -/

/-- `len(re.sub(r'[^a-zA-Z]', '', text))` -/
def alphaCount (t : Str) : Nat := (t.filter Char.isAlpha).length

structure MeanVar where
  count : Nat
  mean : Rat
  var : Rat
  deriving Repr

/-- `np.nanmean` / `np.nanvar` (ddof = 0) of a non-empty batch of ints, which a fresh `MeanAndVariance` takes
over unchanged (rolling_stats.py:371–386: a fresh accumulator has `_var = nan`); `ValueError` for no texts -/
def avgAlphaCount (texts : List Str) : Except ErrKind MeanVar :=
  if texts = [] then .error .value
  else
    let xs : List Rat := texts.map fun t => (alphaCount t : Rat)
    let n : Rat := (xs.length : Rat)
    let mean := xs.sum / n
    .ok { count := xs.length, mean := mean, var := (xs.map fun x => (x - mean) * (x - mean)).sum / n }

end MlModel.Agg.Text
