import MlModel.Model.Basic
/-!
# The mergeable-metric interface (ml_metrics/_src/aggregates/base.py)

`MergeableMetric` = `add(batch)`, `merge(other)`, `result()`; `CallableMetric.add`
(base.py:86–90) is literally `self.merge(self.new(batch))`, and
`MergeableMetricAggFn` (base.py:168–200) is
`create_state = make()`, `update_state s b = s.add b`,
`merge_states (s :: ss) = foldl merge s ss`, `get_result = result`.

`Mergeable` packages one metric as pure functions on an immutable state; a metric's
model file instantiates it and proves the laws in `Lemmas/AggCore.lean: Lawful`.
-/
namespace MlModel.Agg

structure Mergeable (X S R : Type) where
  /-- `cls()` / `make()`: the freshly created accumulator -/
  empty : S
  /-- state of a fresh accumulator after one `add(batch)` (for `CallableMetric`: `new(batch)`) -/
  ofBatch : List X → S
  /-- `receiver.merge(operand)`: the receiver's new state -/
  merge : S → S → S
  /-- `result()` -/
  result : S → R

variable {X S R : Type}

/-- `add(batch)` -/
def Mergeable.add (m : Mergeable X S R) (s : S) (b : List X) : S := m.merge s (m.ofBatch b)

/-- one accumulator fed a list of batches -/
def Mergeable.feed (m : Mergeable X S R) (batches : List (List X)) : S :=
  batches.foldl m.add m.empty

/-- `merge_states` (base.py:195): fold the remaining states into the first one -/
def Mergeable.mergeStates (m : Mergeable X S R) : List S → S
  | [] => m.empty
  | s :: ss => ss.foldl m.merge s

/-- shards → batches → rows: every shard gets its own accumulator, then all are merged -/
def Mergeable.sharded (m : Mergeable X S R) (shards : List (List (List X))) : S :=
  m.mergeStates (shards.map m.feed)

end MlModel.Agg
