import MlModel.Model.Agg.Retrieval
/-!
# Object-level model of `MeanState` (aggregates/utils.py) with explicit array cells (DESIGN §3)

`TopKRetrieval._state` is a dict of `MeanState` objects; `MeanState.total` is either an
immutable Python number (the initial `0.0`, or `sum([]) == 0` of an empty batch) or a reference
to an ndarray.  Python statements are classified as in DESIGN §3:

* `self.total += other.total` with `self.total` a Python number: **rebinding** to the value of
  `number + other.total` — numpy allocates a *new* array (`alloc`);
* `self.total += other.total` with `self.total` an ndarray: **in-place** `write` to that array;
* `self.count += other.count`: rebinding of an int field of `self`;
* `MeanState.new(inputs)`: `sum(inputs)` builds a new array that only the returned batch object
  references (it enters `merge` as a value here);
* `result()`: `safe_divide(total, count)` builds a new value, no write at all.

`TopKRetrieval.add/merge` are sequences of these object-level steps on the `MeanState`s of the
receiver (one per metric); two accumulators own disjoint sets of `MeanState` objects
(`defaultdict(MeanState)` creates them).
-/
namespace MlModel.Agg.Retrieval.Heap
open MlModel.Agg.Retrieval

/-- `MeanState.total`: the Python number 0 / 0.0, or a reference to an ndarray cell -/
inductive Total where
  | zero
  | arr (ref : Nat)
  deriving DecidableEq, Repr

structure Obj where
  total : Total
  count : Nat
  deriving DecidableEq, Repr

structure World where
  /-- ndarray cells -/
  heap : List (List V)
  /-- `MeanState` objects -/
  objs : List Obj
  deriving Repr

def World.empty : World := ⟨[], []⟩

/-- what `other.total` evaluates to: `none` = the number 0, `some v` = the array contents -/
def World.read (w : World) : Total → Option (List V)
  | .zero => none
  | .arr r => some (w.heap.getD r [])

/-- `self.total += x; self.count += n` on object `i` (`x` by value) -/
def World.mergeInto (w : World) (i : Nat) (x : Option (List V)) (n : Nat) : World :=
  match w.objs[i]? with
  | none => w
  | some o =>
    match o.total, x with
    | .zero, none => { w with objs := w.objs.set i ⟨.zero, o.count + n⟩ }
    | .zero, some v =>
      -- `0.0 + ndarray`: a new array, `self.total` is rebound to it
      { heap := w.heap ++ [v.map (V.add V.zero)], objs := w.objs.set i ⟨.arr w.heap.length, o.count + n⟩ }
    | .arr r, none =>
      -- `ndarray += 0`: in place
      { heap := w.heap.set r ((w.heap.getD r []).map fun a => V.add a V.zero),
        objs := w.objs.set i ⟨.arr r, o.count + n⟩ }
    | .arr r, some v =>
      -- `ndarray += ndarray`: in place
      { heap := w.heap.set r (vecAdd (w.heap.getD r []) v), objs := w.objs.set i ⟨.arr r, o.count + n⟩ }

/-- operations on `MeanState` objects -/
inductive Op where
  /-- `MeanState()` -/
  | new
  /-- `objs[i].add(inputs)` = `merge(new(inputs))`; `inputs` = the Examples × K array -/
  | add (i : Nat) (nk : Nat) (inputs : List (List V))
  /-- `objs[i].merge(objs[j])` -/
  | merge (i j : Nat)

/-- `MeanState.new(inputs)` by value: `(sum(inputs), len(inputs))` -/
def batchOf (nk : Nat) (inputs : List (List V)) : Option (List V) × Nat :=
  match inputs with
  | [] => (none, 0)
  | _ => (some (inputs.foldl vecAdd (List.replicate nk V.zero)), inputs.length)

def World.step (w : World) : Op → World
  | .new => { w with objs := w.objs ++ [⟨.zero, 0⟩] }
  | .add i nk inputs => let b := batchOf nk inputs; w.mergeInto i b.1 b.2
  | .merge i j =>
    match w.objs[j]? with
    | none => w
    | some o => w.mergeInto i (w.read o.total) o.count

def World.run (w : World) (ops : List Op) : World := ops.foldl World.step w

/-- the value-level view of object `i` (vectors of width `nk`) -/
def World.cell (w : World) (nk : Nat) (i : Nat) : Option MeanCell :=
  (w.objs[i]?).map fun o =>
    ⟨match o.total with
      | .zero => List.replicate nk V.zero
      | .arr r => w.heap.getD r [], o.count⟩

/-- `MeanState.result()`: reads, never writes -/
def World.result (w : World) (nk : Nat) (i : Nat) : Option MeanResult := (w.cell nk i).map MeanCell.result

end MlModel.Agg.Retrieval.Heap
