import MlModel.Model.Agg.RollingSimple
/-!
# Order-carrying accumulators and the reservoir sampler (pure models)

`UnboundedSampler` (rolling_stats.py:33–67), `ValueAccumulator` (:492–527) and
`FixedSizeSample` (:70–162).  Values are opaque (`α`).  The aliasing behaviour of the same
classes (which Python lists a method writes) is modelled in `RollingHeap.lean`.
-/
namespace MlModel.Agg.Rolling

/-! ## UnboundedSampler -/

structure US (α : Type) where
  /-- `_samples` : one list per input column; `()` for a fresh sampler -/
  samples : List (List α)
  /-- `_multi_input` -/
  multi : Bool
  deriving DecidableEq, Repr

/-- `UnboundedSampler()` -/
def US.fresh {α : Type} : US α := ⟨[], true⟩

/-- `new(*inputs)` : `samples = tuple(list(i) for i in inputs)`, `multi_input = len(inputs) != 1` -/
def US.ofCols {α : Type} (cols : List (List α)) : US α := ⟨cols, cols.length != 1⟩

/-- `merge` (rolling_stats.py:56–62).  `fixed = false` is the original code, where a
never-updated operand makes `zip(.., strict=True)` raise. -/
def US.merge {α : Type} (fixed : Bool) (s o : US α) : Except ErrKind (US α) :=
  if fixed && o.samples.isEmpty then .ok s
  else
    let s' : US α := if s.samples.isEmpty then ⟨o.samples.map fun _ => [], o.multi⟩ else s
    if s'.samples.length != o.samples.length then .error .value
    else .ok ⟨List.zipWith (· ++ ·) s'.samples o.samples, s'.multi⟩

/-- `result()` : the tuple of lists, or the single list -/
inductive USResult (α : Type) where
  | tuple (cols : List (List α))
  | single (col : List α)
  deriving DecidableEq, Repr

def US.result {α : Type} (s : US α) : USResult α :=
  if s.multi then .tuple s.samples else .single (s.samples.headD [])

def US.mergeT {α : Type} (s o : US α) : US α :=
  match US.merge true s o with | .ok r => r | .error _ => s

def unboundedSampler (α : Type) [Inhabited α] (k : Nat) : Mergeable (RowOf α k) (US α) (USResult α) where
  empty := US.fresh
  ofBatch := fun rows => US.ofCols (colsOf k (rows.map (·.val)))
  merge := US.mergeT
  result := US.result

/-! ## ValueAccumulator with a pure `concat_fn` (list concatenation) or none

Without `concat_fn`, `new(*args)` wraps every argument in a one-element list and `merge` is list
`+`: the accumulated items are the *batches themselves*.  With `concat_fn`, `new` keeps the
arguments and `merge` concatenates them.  Both are "a list of items per column". -/

/-- `_data` : `()` when fresh -/
abbrev VA (α : Type) := List (List α)

def VA.merge {α : Type} (fixed : Bool) (s o : VA α) : Except ErrKind (VA α) :=
  if fixed && o.isEmpty then .ok s
  else if s.isEmpty then .ok o
  else if s.length != o.length then .error .value
  else .ok (List.zipWith (· ++ ·) s o)

/-- `result()` with `metric_fns = None` : `_data if len(_data) > 1 else _data[0]`
(`IndexError` on a fresh accumulator) -/
def VA.result {α : Type} (s : VA α) : Except ErrKind (USResult α) :=
  if s.length > 1 then .ok (.tuple s)
  else match s with
    | [c] => .ok (.single c)
    | _ => .error .index

def VA.mergeT {α : Type} (s o : VA α) : VA α :=
  match VA.merge true s o with | .ok r => r | .error _ => s

def valueAccumulator (α : Type) [Inhabited α] (k : Nat) :
    Mergeable (RowOf α k) (VA α) (Except ErrKind (USResult α)) where
  empty := []
  ofBatch := fun rows => colsOf k (rows.map (·.val))
  merge := VA.mergeT
  result := VA.result

/-! ## FixedSizeSample — reservoir sampling, Algorithm L; the RNG is an arbitrary stream -/

/-- the random draws, an arbitrary input; an exhausted stream answers 0 -/
abbrev Rng := List Nat

def Rng.draw : Rng → Nat × Rng
  | [] => (0, [])
  | x :: r => (x, r)

structure FSS (α : Type) where
  maxSize : Nat
  reservoir : List α
  reviewed : Nat
  deriving DecidableEq, Repr

def FSS.fresh {α : Type} (maxSize : Nat) : FSS α := ⟨maxSize, [], 0⟩

/-- the `while i < n` loop of `_add_samples_to_reservoir` (rolling_stats.py:122–128).
`j = i + 1`.  One draw is the skip `floor(log(u)/log(1-w)) ≥ 0`, one the slot
`rng.integers(max_size)`; the `_logw` update only shapes the distribution of the skips and is
not modelled. -/
def FSS.loop {α : Type} (maxSize n : Nat) (samples : List α) :
    Nat → Nat → List α → Rng → List α × Rng
  | 0, _, res, rng => (res, rng)
  | fuel + 1, j, res, rng =>
    if j ≤ n then
      let (d, rng) := rng.draw
      let j' := j + d + 1
      if j' ≤ n then
        let (r, rng) := rng.draw
        match samples[j' - 1]? with
        | some v => FSS.loop maxSize n samples fuel j' (res.set (r % maxSize) v) rng
        | none => FSS.loop maxSize n samples fuel j' res rng
      else (res, rng)
    else (res, rng)

/-- `add(inputs)` -/
def FSS.add {α : Type} (s : FSS α) (samples : List α) (rng : Rng) : FSS α × Rng :=
  let n := samples.length
  let lenN := min (s.maxSize - s.reservoir.length) n
  let res := s.reservoir ++ samples.take lenN
  let (res, rng) := FSS.loop s.maxSize n samples (n + 1) lenN res rng
  ({ s with reservoir := res, reviewed := s.reviewed + n }, rng)

/-- `list.pop(i)` -/
def popAt {α : Type} (l : List α) (i : Nat) : Option (α × List α) :=
  match l[i]? with
  | some v => some (v, l.eraseIdx i)
  | none => none

/-- the loop of `_merge_reservoirs` (rolling_stats.py:137–145) on the receiver's reservoir and a
*copy* of the operand's (repaired code).  A draw decides "from the receiver?" only when both
`num_samples` counters are positive (`uniform() < n_orig / (n_orig + n_new)` is forced otherwise);
`rng.integers(0)` on an empty reservoir raises `ValueError`. -/
def FSS.mergeLoop {α : Type} (maxSize : Nat) :
    Nat → List α → List α → Nat → List α → Nat → Rng → Except ErrKind (List α × List α × List α × Rng)
  | 0, result, resO, _, resN, _, rng => .ok (result, resO, resN, rng)
  | fuel + 1, result, resO, nO, resN, nN, rng =>
    if result.length < maxSize ∧ nO + nN ≠ 0 then
      let (u, rng) := rng.draw
      let fromOrig := if nN = 0 then true else if nO = 0 then false else u % 2 == 0
      let (r, rng) := rng.draw
      if fromOrig then
        match popAt resO (r % resO.length) with
        | some (v, resO') => FSS.mergeLoop maxSize fuel (result ++ [v]) resO' (nO - 1) resN nN rng
        | none => .error .value
      else
        match popAt resN (r % resN.length) with
        | some (v, resN') => FSS.mergeLoop maxSize fuel (result ++ [v]) resO nO resN' (nN - 1) rng
        | none => .error .value
    else .ok (result, resO, resN, rng)

/-- `merge(other)`; returns the receiver *and the operand's reservoir afterwards*.
`fixed = false` : the original code pops from `other.reservoir` itself (§7-F3). -/
def FSS.merge {α : Type} (fixed : Bool) (s o : FSS α) (rng : Rng) :
    Except ErrKind (FSS α × FSS α × Rng) := do
  let (result, _, resN, rng) ←
    FSS.mergeLoop s.maxSize (s.maxSize + 1) [] s.reservoir s.reviewed o.reservoir o.reviewed rng
  return ({ s with reservoir := result, reviewed := s.reviewed + o.reviewed },
          if fixed then o else { o with reservoir := resN }, rng)

/-- a history of a reservoir sampler -/
inductive FSSHist (α : Type) where
  | fresh : FSSHist α
  | add (h : FSSHist α) (xs : List α) : FSSHist α
  | merge (a b : FSSHist α) : FSSHist α

def FSSHist.data {α : Type} : FSSHist α → List α
  | fresh => []
  | add h xs => h.data ++ xs
  | merge a b => a.data ++ b.data

def FSSHist.eval {α : Type} (maxSize : Nat) : FSSHist α → Rng → Except ErrKind (FSS α × Rng)
  | .fresh, rng => .ok (FSS.fresh maxSize, rng)
  | .add h xs, rng => do
    let (s, rng) ← h.eval maxSize rng
    return s.add xs rng
  | .merge a b, rng => do
    let (sa, rng) ← a.eval maxSize rng
    let (sb, rng) ← b.eval maxSize rng
    let (s, _, rng) ← FSS.merge true sa sb rng
    return (s, rng)

end MlModel.Agg.Rolling
