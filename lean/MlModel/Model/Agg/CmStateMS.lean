import MlModel.Model.Agg.CmStateHeap
import MlModel.Model.Agg.HeapMS
/-!
# `ConfusionMatrixAggFn.merge_states` over n states, statement by statement (work package SC11)

classification.py:642–660 (the repaired code, finding F-C11-cm-merge-first-none):

```
result = None
for i, accumulator in enumerate(states):
  if accumulator is None:
    continue
  if result is None:
    # Only the first state may be modified: a later one is merged into a copy.
    result = accumulator if i == 0 else copy.deepcopy(accumulator)
  else:
    result += accumulator
return result
```

`Model/Agg/CmStateHeap.lean` models the call on TWO states (`mergeStates fixed h s o`) and the
population steps fold it.  `mergeStatesN` is the loop itself over any list; `Lemmas/CmStateMS.lean`
proves it equal to the left fold of the binary form, and that `Sys.mergeStates` of
`Model/Agg/HeapMS.lean` on a population of states is exactly this loop on the listed states.
-/
namespace MlModel.Agg.Confusion.SH
open MlModel.Agg.Heap

/-- the loop from position `i` on; `result` is the local variable -/
def mergeLoop (h : Heap Cell) (result : St) (i : Nat) : List St → Heap Cell × St
  | [] => (h, result)
  | none :: rest => mergeLoop h result (i + 1) rest                 -- `if accumulator is None: continue`
  | some a :: rest =>
    match result with
    | none =>                                                        -- `if result is None:`
      if i = 0 then mergeLoop h (some a) (i + 1) rest                -- `result = accumulator if i == 0`
      else                                                           -- `else copy.deepcopy(accumulator)`
        mergeLoop (allocCM h (readCM h a)).1 (some (allocCM h (readCM h a)).2) (i + 1) rest
    | some r => mergeLoop (iadd h r a) (some r) (i + 1) rest         -- `result += accumulator`

/-- `merge_states(states)`: the heap afterwards and the returned state (`None` for an empty or all-`None` list) -/
def mergeStatesN (h : Heap Cell) (states : List St) : Heap Cell × St := mergeLoop h none 0 states

end MlModel.Agg.Confusion.SH
