import MlModel.Model.Agg.Core
/-!
# Histories with reads (work package SC07)

`Mergeable.result` is a pure function of the state.  The real `result()` / `get_result(state)` /
derived property is a *method of a mutable object*: it may cache (`functools.cached_property`),
normalise or otherwise write into the object it reads.  `RMergeable` keeps that freedom in the
model: `read : S → S × R` returns the value **and the state the object is left in**.

A history (`Op`) is any sequence of calls on numbered accumulators that a user of the object API
(`cls()`, `add`, `merge`, `result`) or of the AggregateFn API (`create_state`, `update_state`,
`merge_states`, `get_result`) can issue; reads are interleaved with the in-place mutations of the
*same* state.  `run` executes it and records what every read returned.

`Lemmas/AggHistory.lean` proves that under the two local read laws (`ReadLaws`: a read returns
`result` of the state and leaves an observationally equivalent state) every read of every history
returns the one-shot value of all the data that reached its accumulator so far, and that two
histories that differ only in their reads cannot be told apart by any later read.
-/
namespace MlModel.Agg

/-- a mergeable metric whose read may write into the object -/
structure RMergeable (X S R : Type) extends Mergeable X S R where
  /-- `acc.result()` / `get_result(acc)`: the returned value and the state the object is left in -/
  read : S → S × R

/-- the model the other files use: reading is `result` and touches nothing -/
def Mergeable.pureRead {X S R : Type} (m : Mergeable X S R) : RMergeable X S R :=
  { m with read := fun s => (s, m.result s) }

namespace Hist

inductive Op (X : Type) where
  /-- `accs[i] = cls()` / `create_state()` -/
  | new (i : Nat)
  /-- `accs[i].add(batch)` / `accs[i] = update_state(accs[i], batch)` -/
  | add (i : Nat) (b : List X)
  /-- `accs[i].merge(accs[j])` -/
  | merge (i j : Nat)
  /-- `accs[i] = merge_states([accs[i]] + [accs[j] for j in js])` (base.py:195: a left fold) -/
  | mergeStates (i : Nat) (js : List Nat)
  /-- `obs.append(accs[i].result())` -/
  | read (i : Nat)
  deriving DecidableEq, Repr

/-- is the operation a mutation (anything but a read)? -/
def Op.isMut {X : Type} : Op X → Bool
  | .read _ => false
  | _ => true

/-- point update of a population -/
def upd {α : Type} (σ : Nat → α) (i : Nat) (a : α) : Nat → α := fun k => if k = i then a else σ k

variable {X S R : Type}

/-- the population of accumulators and everything the reads returned so far -/
structure Cfg (S R : Type) where
  accs : Nat → S
  obs : List R

def init (m : RMergeable X S R) : Cfg S R := ⟨fun _ => m.empty, []⟩

def step (m : RMergeable X S R) (c : Cfg S R) : Op X → Cfg S R
  | .new i => ⟨upd c.accs i m.empty, c.obs⟩
  | .add i b => ⟨upd c.accs i (m.toMergeable.add (c.accs i) b), c.obs⟩
  | .merge i j => ⟨upd c.accs i (m.merge (c.accs i) (c.accs j)), c.obs⟩
  | .mergeStates i js => ⟨upd c.accs i ((js.map c.accs).foldl m.merge (c.accs i)), c.obs⟩
  | .read i => ⟨upd c.accs i (m.read (c.accs i)).1, c.obs ++ [(m.read (c.accs i)).2]⟩

def runFrom (m : RMergeable X S R) (c : Cfg S R) (ops : List (Op X)) : Cfg S R := ops.foldl (step m) c

def run (m : RMergeable X S R) (ops : List (Op X)) : Cfg S R := runFrom m (init m) ops

end Hist
end MlModel.Agg
