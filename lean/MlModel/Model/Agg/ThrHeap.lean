import MlModel.Model.Agg.HeapObs
import MlModel.Model.Agg.RetrievalThr
/-!
# Heap model of `ThresholdedRetrieval` / `_ThresholdedConfusionMatrix` (aggregates/retrieval.py:286–445)

The accumulator's count arrays are **buffer cells**; every Python statement is classified
(DESIGN §3): rebinding an attribute to a fresh array = `alloc`, `ndarray.__iadd__` = `write`.

```
__post_init__  thresholds = np.asarray(sorted(..))            alloc   (one array; `self.thresholds` and
               zeros.copy() ×3 -> tp_trues, tp_preds, p_preds  alloc×3  `_confusion_matrix.thresholds` are it)
               p_trues = 0 (dataclass default, a Python int)   record field
add            tp_trues = y_trues.sum(axis=1) …                alloc×3 (the batch object's arrays)
               _ThresholdedConfusionMatrix(thresholds=self.thresholds, …)   references the SAME thresholds array
               self._confusion_matrix.merge(batch)             see merge
               return confusion_matrix                         the batch object goes to the caller
cm.merge       self.tp_trues += other.tp_trues                 write (ndarray `+=` is in place; reads other's)
               self.tp_preds += other.tp_preds                 write
               self.p_trues  += other.p_trues                  int: rebinding of a record field
               self.p_preds  += other.p_preds                  write
merge          self._confusion_matrix.merge(other.confusion_matrix)
result         {'thresholds': self.thresholds, …}              the accumulator's own array (exposed)
               metric without `@t`: safe_divide(..) / _f1_score(..)   alloc (np.divide(out=np.zeros_like(a)))
               metric@t: np.interp(t, thresholds, rates)       a numpy scalar — no array
```

`add` evaluates the thresholds by reading the thresholds *array* (`for threshold in self.thresholds`), so
the model reads them from the cell too: overwriting the exposed array does change later `add`s
(`Witness`‑style example in `Properties/C11/RetrievalThrHeap.lean`).
-/
namespace MlModel.Agg.Retrieval.Thr.H
open MlModel.Agg.Heap MlModel.Agg.Retrieval.Thr

/-- a buffer: an int64 count array or a float array -/
inductive Cell where
  | nat (xs : List Nat)
  | rat (xs : List Rat)
  deriving Repr, DecidableEq

instance : Inhabited Cell := ⟨.nat []⟩

def Cell.nats : Cell → List Nat
  | .nat xs => xs
  | .rat _ => []

def Cell.rats : Cell → List Rat
  | .rat xs => xs
  | .nat _ => []

/-- one `ThresholdedRetrieval` with its `_ThresholdedConfusionMatrix` -/
structure Obj where
  /-- `self.thresholds` is `self._confusion_matrix.thresholds` -/
  thr : Ref
  tpTrues : Ref
  tpPreds : Ref
  /-- a Python int -/
  pTrues : Nat
  pPreds : Ref
  deriving Repr, DecidableEq

variable {α : Type} [DecidableEq α]

/-- `__post_init__` -/
def make (ts : List Rat) (h : Heap Cell) : Heap Cell × Obj :=
  let a0 := h.alloc (.rat ts)
  let a1 := a0.1.alloc (.nat (List.replicate ts.length 0))
  let a2 := a1.1.alloc (.nat (List.replicate ts.length 0))
  let a3 := a2.1.alloc (.nat (List.replicate ts.length 0))
  (a3.1, ⟨a0.2, a1.2, a2.2, 0, a3.2⟩)

/-- `_ThresholdedConfusionMatrix.merge(self, other)` with `other`'s fields given by reference -/
def cmMerge (h : Heap Cell) (s : Obj) (oTpTrues oTpPreds : Ref) (oPTrues : Nat) (oPPreds : Ref) :
    Heap Cell × Obj :=
  let h1 := h.write s.tpTrues (.nat (List.zipWith (· + ·) (h.read s.tpTrues).nats (h.read oTpTrues).nats))
  let h2 := h1.write s.tpPreds (.nat (List.zipWith (· + ·) (h1.read s.tpPreds).nats (h1.read oTpPreds).nats))
  let h3 := h2.write s.pPreds (.nat (List.zipWith (· + ·) (h2.read s.pPreds).nats (h2.read oPPreds).nats))
  (h3, { s with pTrues := s.pTrues + oPTrues })

/-- `add`: heap, receiver, and the returned batch object's arrays.  A batch the matcher rejects
(`assert len(ixs) < 2`) raises before anything is touched. -/
def addFull (h : Heap Cell) (s : Obj) (rows : List (Row α)) : Heap Cell × Obj × Out :=
  match batchCounts (h.read s.thr).rats rows with
  | .error _ => (h, s, ⟨[], []⟩)
  | .ok c =>
    let a1 := h.alloc (.nat c.tpTrues)
    let a2 := a1.1.alloc (.nat c.tpPreds)
    let a3 := a2.1.alloc (.nat c.pPreds)
    let m := cmMerge a3.1 s a1.2 a2.2 c.pTrues a3.2
    (m.1, m.2, ⟨[a1.2, a2.2, a3.2], [s.thr]⟩)

/-- `ThresholdedRetrieval.merge` -/
def merge (h : Heap Cell) (s o : Obj) : Heap Cell × Obj :=
  cmMerge h s o.tpTrues o.tpPreds o.pTrues o.pPreds

/-- what the accumulator's counts read -/
def abs (h : Heap Cell) (o : Obj) : Counts :=
  ⟨(h.read o.tpTrues).nats, (h.read o.tpPreds).nats, o.pTrues, (h.read o.pPreds).nats⟩

/-- the array-valued entries of `result()` in the order of the configured metrics -/
def resultArrays (c : Counts) (ms : List (Kind × Option Rat)) : List (List Rat) :=
  ms.filterMap fun (k, t) => match t with
    | none => some (c.rates k)
    | some _ => none

/-- `result()`: one fresh array per metric without `@t`; `'thresholds'` is the accumulator's array -/
def result (ms : List (Kind × Option Rat)) (h : Heap Cell) (o : Obj) : Heap Cell × Out :=
  let r := h.allocs ((resultArrays (abs h o) ms).map Cell.rat)
  (r.1, ⟨r.2, [o.thr]⟩)

/-- the class: thresholds `ts`, configured metrics `ms` -/
def cls (α : Type) [DecidableEq α] (ts : List Rat) (ms : List (Kind × Option Rat)) :
    HClassR Cell (List (Row α)) where
  Obj := Obj
  fp := fun o => ⟨[o.tpTrues, o.tpPreds, o.pPreds], [o.thr]⟩
  make := make ts
  add := fun h s rows => ((addFull h s rows).1, (addFull h s rows).2.1)
  merge := merge
  addOut := fun h s rows => (addFull h s rows).2.2
  result := result ms

/-! ## the value-level population the heap model is proved to refine -/

/-- make / add / merge on plain `Counts` values (`Model/Agg/RetrievalThr.lean`) -/
def pureStep (ts : List Rat) (accs : List Counts) : Op (List (Row α)) → List Counts
  | .make => accs ++ [Counts.zero ts.length]
  | .add i rows =>
    match accs[i]?, batchCounts ts rows with
    | some c, .ok b => accs.set i (Counts.merge c b)
    | _, _ => accs
  | .merge i j =>
    if i = j then accs
    else match accs[i]?, accs[j]? with
      | some a, some b => accs.set i (Counts.merge a b)
      | _, _ => accs

/-- reading a result and overwriting a returned array do nothing at the value level -/
def pureStepR (ts : List Rat) (accs : List Counts) : OpR (List (Row α)) Cell → List Counts
  | .base op => pureStep ts accs op
  | .result _ => accs
  | .poke _ _ _ => accs

end MlModel.Agg.Retrieval.Thr.H
