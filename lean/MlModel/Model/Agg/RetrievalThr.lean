import MlModel.Model.Agg.Retrieval
/-!
# `ThresholdedRetrieval` (ml_metrics/_src/aggregates/retrieval.py:221–430), repaired code

`retrieval_matcher` gives every prediction and every true label the probability of the
prediction that matched it (0 when unmatched); `add` pools, per threshold, the number of
matched predictions / matched labels / predictions whose probability exceeds the threshold;
`result` derives precision / recall / F1 per threshold and `metric@t` by `np.interp`.
(Repairs modelled: the derived rates are plain properties, not `cached_property`; a fresh
accumulator starts with per-threshold zero counts.)
-/
namespace MlModel.Agg.Retrieval.Thr
open MlModel.Agg.Retrieval

variable {α : Type} [DecidableEq α]

/-- one example `(y_true_row, y_pred_row, y_prob_row | None)` -/
structure Row (α : Type) where
  yTrue : List α
  yPred : List α
  prob : Option (List Rat)
  deriving Repr

/-- `np.ones_like(row_pred)` when `y_prob` is not given -/
def Row.probs (r : Row α) : List Rat :=
  match r.prob with
  | some p => p
  | none => r.yPred.map fun _ => 1

/-- `zip(row_prob, row_pred)` -/
def Row.pairs (r : Row α) : List (Rat × α) := r.probs.zip r.yPred

/-- `assert len(ixs) < 2`: a matched prediction must occur once in `row_true` -/
def Row.ambiguous (r : Row α) : Bool :=
  r.pairs.any fun (_, p) => r.yTrue.count p ≥ 2

/-- `row_pred_prob`: `prob` where the prediction is a true label, else 0 (zeros beyond the
shorter of `row_prob`/`row_pred`) -/
def Row.predProb (r : Row α) : List Rat :=
  (r.pairs.map fun (q, p) => if p ∈ r.yTrue then q else 0)
    ++ List.replicate (r.yPred.length - r.pairs.length) 0

/-- `row_true_prob`: for every true label the probability of the *last* prediction equal to
it (`row_true_prob[ixs[0]] = prob` is executed in prediction order), else 0 -/
def Row.trueProb (r : Row α) : List Rat :=
  r.yTrue.map fun t =>
    match r.pairs.reverse.find? (fun (_, p) => p = t) with
    | some (q, _) => q
    | none => 0

/-- the pooled counts (`_ThresholdedConfusionMatrix` without the thresholds) -/
structure Counts where
  tpTrues : List Nat
  tpPreds : List Nat
  pTrues : Nat
  pPreds : List Nat
  deriving DecidableEq, Repr

/-- number of entries `> t` -/
def above (t : Rat) (xs : List Rat) : Nat := xs.countP (· > t)

/-- `ThresholdedRetrieval.add` for one batch (thresholds `ts`, already sorted) -/
def batchCounts (ts : List Rat) (rows : List (Row α)) : Except ErrKind Counts :=
  if rows.any Row.ambiguous then .error .assertion else
  let yProb := (rows.map Row.probs).flatten
  let mTrue := ((rows.map Row.trueProb).flatten).filter (· ≥ 0)
  let mPred := ((rows.map Row.predProb).flatten).filter (· ≥ 0)
  .ok { tpTrues := ts.map fun t => above t mTrue
        tpPreds := ts.map fun t => above t mPred
        pTrues := mTrue.length
        pPreds := ts.map fun t => above t yProb }

def Counts.zero (n : Nat) : Counts := ⟨List.replicate n 0, List.replicate n 0, 0, List.replicate n 0⟩

/-- `_ThresholdedConfusionMatrix.merge` -/
def Counts.merge (a b : Counts) : Counts :=
  ⟨List.zipWith (· + ·) a.tpTrues b.tpTrues, List.zipWith (· + ·) a.tpPreds b.tpPreds,
   a.pTrues + b.pTrues, List.zipWith (· + ·) a.pPreds b.pPreds⟩

/-- `precision`: `safe_divide(tp_preds, p_preds)` -/
def Counts.precision (c : Counts) : List Rat :=
  List.zipWith (fun (a b : Nat) => if b = 0 then (0 : Rat) else (a : Rat) / (b : Rat)) c.tpPreds c.pPreds

/-- `recall`: `safe_divide(tp_trues, p_trues)` -/
def Counts.recall (c : Counts) : List Rat :=
  c.tpTrues.map fun (a : Nat) => if c.pTrues = 0 then (0 : Rat) else (a : Rat) / (c.pTrues : Rat)

/-- `_f1_score(precision, recall)` -/
def Counts.f1 (c : Counts) : List Rat :=
  List.zipWith (fun p r => if p + r = 0 then 0 else 2 * p * r / (p + r)) c.precision c.recall

/-- `np.interp(x, xp, fp)` for non-decreasing `xp` (as numpy computes it: clamp outside the
range, the last grid point `≤ x`, exact value on a grid point, else the chord) -/
def interp (x : Rat) (xp fp : List Rat) : Rat :=
  let n := xp.countP (· ≤ x)      -- xp is sorted: indices 0..n-1 are ≤ x
  if n = 0 then fp.headD 0
  else
    let j := n - 1
    let xj := xp.getD j 0
    let fj := fp.getD j 0
    if n ≥ xp.length then fj
    else if xj = x then fj
    else
      let slope := (fp.getD (j + 1) 0 - fj) / (xp.getD (j + 1) 0 - xj)
      slope * (x - xj) + fj

inductive Kind where | precision | recall | f1
  deriving DecidableEq, Repr

def Counts.rates (c : Counts) : Kind → List Rat
  | .precision => c.precision | .recall => c.recall | .f1 => c.f1

/-- the `Mergeable` view for inputs the matcher accepts (no ambiguous match) -/
def ofBatch (ts : List Rat) (rows : List (Row α)) : Counts :=
  match batchCounts ts rows with
  | .ok c => c
  | .error _ => Counts.zero ts.length

def mergeable (ts : List Rat) : Mergeable (Row α) Counts (List Rat × List Rat × List Rat) where
  empty := Counts.zero ts.length
  ofBatch := ofBatch ts
  merge := Counts.merge
  result := fun c => (c.precision, c.recall, c.f1)

end MlModel.Agg.Retrieval.Thr
