import MlModel.Model.Agg.Core
/-!
# `TopKRetrieval` (ml_metrics/_src/aggregates/retrieval.py) and `MeanState` (aggregates/utils.py)

Model of the **repaired** code (repo commits `fix: TopKRetrieval …`): every example is
evaluated at the configured `k_list` (padding its ranking with misses), `k_list=None` means
"all the outputs of *this* example", `input_type='multiclass'` wraps every label into a
one-element ranking and clamps every K to 1.

Numbers (DESIGN §3): counts are `Nat`, rates are `Rat`; NaN (numpy `0/0`) is `none`.
`sqrt` (Fowlkes–Mallows) and `1/log2(rank+1)` (DCG/NDCG) stay symbolic: a value is a rational
part plus a *formal sum* of symbolic terms (`V`), the driver prints the terms and the harness
finishes the evaluation in float64.
-/
namespace MlModel.Agg.Retrieval

/-! ## numbers -/

/-- a float that is either an exact rational or NaN (`none`) -/
abbrev Q := Option Rat

namespace Q
def add : Q → Q → Q
  | some a, some b => some (a + b)
  | _, _ => none
def sub : Q → Q → Q
  | some a, some b => some (a - b)
  | _, _ => none
def mul : Q → Q → Q
  | some a, some b => some (a * b)
  | _, _ => none
/-- numpy true division.  `x/0` is NaN (`0/0`) or ±inf (`x ≠ 0`): both are `none` here; for
`k ≥ 1` no retrieval metric divides a non-zero numerator by zero (see `Lemmas/Retrieval`). -/
def div : Q → Q → Q
  | some a, some b => if b = 0 then none else some (a / b)
  | _, _ => none
def ofNat (n : Nat) : Q := some (n : Rat)
def ofInt (n : Int) : Q := some (n : Rat)
/-- `math_utils.safe_divide(a, b)`: `np.divide(a, b, out=zeros, where=(b != 0))` — zero where
`b == 0` (whatever `a` is), NaN where `b` is NaN (`nan != 0`). -/
def safeDiv (a b : Q) : Q :=
  match b with
  | some b' => if b' = 0 then some 0 else div a (some b')
  | none => none
end Q

/-- symbolic residues (never approximated by the driver) -/
inductive Term where
  /-- `np.sqrt(q)` -/
  | sqrt (q : Rat)
  /-- `Σ_{r ∈ ranks} 1/log2(r+1)` -/
  | dcg (ranks : List Nat)
  /-- `(Σ_{r ∈ ranks} 1/log2(r+1)) / (Σ_{r ∈ ideal} 1/log2(r+1))`, `ideal ≠ []` -/
  | ndcg (ranks ideal : List Nat)
  deriving DecidableEq, Repr

/-- one float value: rational part (NaN = `none`, absorbing) + formal sum of symbolic terms -/
structure V where
  q : Q
  sym : List Term
  deriving DecidableEq, Repr

namespace V
def zero : V := ⟨some 0, []⟩
def nan : V := ⟨none, []⟩
def ofQ (q : Q) : V := ⟨q, []⟩
def ofTerm (t : Term) : V := ⟨some 0, [t]⟩
/-- float addition (`ndarray.__add__` / `sum`) -/
def add (a b : V) : V := ⟨Q.add a.q b.q, a.sym ++ b.sym⟩
end V

/-- element-wise `a + b` of two rows of equal length -/
def vecAdd (a b : List V) : List V := List.zipWith V.add a b

/-! ## numpy helpers -/

/-- `np.cumsum` (running fold; the accumulator starts at `z`) -/
def cumsumG {β : Type} (add : β → β → β) : β → List β → List β
  | _, [] => []
  | acc, x :: xs => add acc x :: cumsumG add (add acc x) xs

/-- `_at_k(values, k)[row]`: `values[row, k - 1]` -/
def atK {β : Type} (xs : List β) (k : Nat) (d : β) : β := xs.getD (k - 1) d

variable {α : Type} [DecidableEq α]

/-- one example: `(y_true_row, y_pred_row)` -/
structure Row (α : Type) where
  yTrue : List α
  yPred : List α
  deriving Repr

/-- retrieval.py `add`: `int(y_pred_row[i] in y_true_row) if i < len(y_pred_row) else 0
for i in range(max_pred_count)` -/
def tpRow (W : Nat) (r : Row α) : List Nat :=
  (List.range W).map fun i =>
    match r.yPred[i]? with
    | some p => if p ∈ r.yTrue then 1 else 0
    | none => 0

/-- the per-example arrays every metric function receives (width `W = max_pred_count`) -/
structure Ctx where
  W : Nat
  /-- `tp[row]` -/
  tp : List Nat
  /-- `tp_at_topks[row] = np.cumsum(tp)` -/
  tpAt : List Nat
  /-- `y_pred_count[row]` -/
  nPred : Nat
  /-- `y_true_count[row]` -/
  nTrue : Nat

def mkCtx (W : Nat) (r : Row α) : Ctx :=
  let tp := tpRow W r
  { W := W, tp := tp, tpAt := cumsumG (· + ·) 0 tp, nPred := r.yPred.length, nTrue := r.yTrue.length }

namespace Ctx
variable (c : Ctx)

/-- `_at_k(tp_at_topks, k_list)` -/
def tpK (k : Nat) : Nat := atK c.tpAt k 0

/-- `_accuracy`: `(tp_at_topks[k-1] > 0).astype(int32)` -/
def accuracy (k : Nat) : Q := Q.ofNat (if c.tpK k > 0 then 1 else 0)

/-- `_precision` (= `_ppv` = `_positive_predictive_value`): `tp@k / minimum(k, y_pred_count)` -/
def precision (k : Nat) : Q := Q.div (Q.ofNat (c.tpK k)) (Q.ofNat (min k c.nPred))

/-- `_recall` (= `_sensitivity` = `_tpr`): `tp@k / y_true_len` -/
def recall (k : Nat) : Q := Q.div (Q.ofNat (c.tpK k)) (Q.ofNat c.nTrue)

/-- `_intersection_over_union`: `tp@k / (minimum(k, y_pred_count) + y_true_len - tp@k)` -/
def iou (k : Nat) : Q :=
  Q.div (Q.ofNat (c.tpK k)) (Q.ofInt ((min k c.nPred : Nat) + (c.nTrue : Int) - (c.tpK k : Int)))

/-- `_f1_score`: `safe_divide(2 * precision * recall, precision + recall)` -/
def f1 (k : Nat) : Q :=
  Q.safeDiv (Q.mul (Q.mul (some 2) (c.precision k)) (c.recall k)) (Q.add (c.precision k) (c.recall k))

/-- `_miss_rate`: `1 - recall` -/
def missRate (k : Nat) : Q := Q.sub (some 1) (c.recall k)

/-- `_false_discovery_rate`: `1 - precision` -/
def fdr (k : Nat) : Q := Q.sub (some 1) (c.precision k)

/-- `_threat_score`: `tp@k / ((y_true_len - tp@k) + k)` -/
def threat (k : Nat) : Q :=
  Q.div (Q.ofNat (c.tpK k)) (Q.ofInt ((c.nTrue : Int) - (c.tpK k : Int) + (k : Int)))

/-- `_fowlkes_mallows_index`: `pos_sqrt(precision * recall)` (the radicand stays symbolic) -/
def fmi (k : Nat) : V :=
  match Q.mul (c.precision k) (c.recall k) with
  | some x => V.ofTerm (.sqrt x)
  | none => V.nan

/-- `_mean_average_precision`:
`precision_all_k = tp_at_topks[ks-1] / ks; relevance = tp > 0;`
`result = cumsum(precision_all_k * relevance) / minimum(ks, y_true_len)`, then `_at_k`. -/
def apAll : List Q :=
  let prod : List Rat := (List.range c.W).map fun i =>
    ((c.tpAt.getD i 0 : Nat) : Rat) / ((i + 1 : Nat) : Rat) * (if c.tp.getD i 0 > 0 then 1 else 0)
  let cs := cumsumG (· + ·) (0 : Rat) prod
  (List.range c.W).map fun i => Q.div (some (cs.getD i 0)) (Q.ofNat (min (i + 1) c.nTrue))

def ap (k : Nat) : Q := atK c.apAll k none

/-- `np.argmax(tp_at_topks > 0)`: index of the first `True`, `0` when there is none -/
def argmaxPos (xs : List Nat) : Nat :=
  match xs.findIdx? (· > 0) with
  | some i => i
  | none => 0

/-- `_mean_reciprocal_rank`:
`ranks = argmax(tp_at_topks > 0) + 1; ranks = where(tp_at_topks > 0, ranks, inf); (1/ranks)` -/
def rrAll : List Q :=
  let rank := argmaxPos c.tpAt + 1
  c.tpAt.map fun t => if t > 0 then some (1 / ((rank : Nat) : Rat)) else some 0

def rr (k : Nat) : Q := atK c.rrAll k none

/-- `np.cumsum(np.where(tp > 0, 1/log2(k_range+1), 0))`: the contributing ranks per column -/
def dcgAll : List (List Nat) :=
  cumsumG (· ++ ·) [] ((List.range c.W).map fun i => if c.tp.getD i 0 > 0 then [i + 1] else [])

/-- `_dcg_score` -/
def dcg (k : Nat) : V := V.ofTerm (.dcg (atK c.dcgAll k []))

/-- `np.cumsum(np.where(k_range > y_true_count, 0, 1/log2(k_range+1)))` -/
def idealAll : List (List Nat) :=
  cumsumG (· ++ ·) [] ((List.range c.W).map fun i => if i + 1 > c.nTrue then [] else [i + 1])

/-- `_ndcg_score`: `dcg@k / ideal_dcg@k` (`0/0` = NaN when there is no true label) -/
def ndcg (k : Nat) : V :=
  match atK c.idealAll k [] with
  | [] => V.nan
  | ideal => V.ofTerm (.ndcg (atK c.dcgAll k []) ideal)

end Ctx

/-! ## metric table -/

/-- `RetrievalMetric` members that `TopKRetrieval.add` computes -/
inductive Metric where
  | accuracy | precision | ppv | recall | sensitivity | tpr | positivePredictiveValue
  | intersectionOverUnion | f1Score | meanAveragePrecision | meanReciprocalRank | missRate
  | falseDiscoveryRate | threatScore | fowlkesMallowsIndex | dcgScore | ndcgScore
  deriving DecidableEq, Repr

def Metric.name : Metric → String
  | .accuracy => "accuracy" | .precision => "precision" | .ppv => "ppv" | .recall => "recall"
  | .sensitivity => "sensitivity" | .tpr => "tpr"
  | .positivePredictiveValue => "positive_predictive_value"
  | .intersectionOverUnion => "intersection_over_union" | .f1Score => "f1_score"
  | .meanAveragePrecision => "mean_average_precision"
  | .meanReciprocalRank => "mean_reciprocal_rank" | .missRate => "miss_rate"
  | .falseDiscoveryRate => "false_discovery_rate" | .threatScore => "threat_score"
  | .fowlkesMallowsIndex => "fowlkes_mallows_index" | .dcgScore => "dcg_score"
  | .ndcgScore => "ndcg_score"

def Metric.all : List Metric :=
  [.accuracy, .precision, .ppv, .recall, .sensitivity, .tpr, .positivePredictiveValue,
   .intersectionOverUnion, .f1Score, .meanAveragePrecision, .meanReciprocalRank, .missRate,
   .falseDiscoveryRate, .threatScore, .fowlkesMallowsIndex, .dcgScore, .ndcgScore]

/-- the dispatch of `TopKRetrieval.add` (retrieval.py: the chain of `if '<name>' in self._metrics`) -/
def Ctx.metric (c : Ctx) (m : Metric) (k : Nat) : V :=
  match m with
  | .accuracy => V.ofQ (c.accuracy k)
  | .precision | .ppv | .positivePredictiveValue => V.ofQ (c.precision k)
  | .recall | .sensitivity | .tpr => V.ofQ (c.recall k)
  | .intersectionOverUnion => V.ofQ (c.iou k)
  | .f1Score => V.ofQ (c.f1 k)
  | .meanAveragePrecision => V.ofQ (c.ap k)
  | .meanReciprocalRank => V.ofQ (c.rr k)
  | .missRate => V.ofQ (c.missRate k)
  | .falseDiscoveryRate => V.ofQ (c.fdr k)
  | .threatScore => V.ofQ (c.threat k)
  | .fowlkesMallowsIndex => c.fmi k
  | .dcgScore => c.dcg k
  | .ndcgScore => c.ndcg k

/-! ## configuration, batch, state -/

structure Config where
  /-- `k_list` (`none`/empty = "all outputs of each example"), in the configured order -/
  kList : Option (List Nat)
  metrics : List Metric
  /-- `input_type == 'multiclass'` (one label per example) -/
  multiclass : Bool
  deriving Repr

/-- `if self.k_list:` — `None` and `[]` are both falsy -/
def Config.ks? (cfg : Config) : Option (List Nat) :=
  match cfg.kList with
  | some (k :: ks) => some (k :: ks)
  | _ => none

/-- the Ks of one example: `k_list` (clamped to 1 for multiclass) for every example, or
`np.maximum(y_pred_count, 1)` of this example when `k_list` is `None` -/
def Config.rowKs (cfg : Config) (r : Row α) : List Nat :=
  match cfg.ks? with
  | some ks => if cfg.multiclass then ks.map (min · 1) else ks
  | none => [max r.yPred.length 1]

/-- number of columns of every per-metric array -/
def Config.nk (cfg : Config) : Nat :=
  match cfg.ks? with
  | some ks => ks.length
  | none => 1

/-- `max_pred_count = int(k_list.max(initial=1))` over the whole batch -/
def Config.width (cfg : Config) (rows : List (Row α)) : Nat :=
  (rows.map fun r => (cfg.rowKs r).foldl max 1).foldl max 1

/-- the values `add` computes for one example when the batch arrays have width `W`:
one vector (over the Ks) per configured metric -/
def rowVals (cfg : Config) (W : Nat) (r : Row α) : List (List V) :=
  let c := mkCtx W r
  cfg.metrics.map fun m => (cfg.rowKs r).map fun k => c.metric m k

/-- `MeanState` (aggregates/utils.py): `total` (a vector over the Ks) and `count` -/
structure MeanCell where
  total : List V
  count : Nat
  deriving DecidableEq, Repr

/-- `MeanState.merge`: `self.total += other.total; self.count += other.count` -/
def MeanCell.merge (a b : MeanCell) : MeanCell := ⟨vecAdd a.total b.total, a.count + b.count⟩

/-- `MeanState.new(inputs)`: `MeanState(total=sum(inputs), count=len(inputs))`
(`sum` starts from the scalar 0, which broadcasts: represented as the zero vector) -/
def MeanCell.new (nk : Nat) (inputs : List (List V)) : MeanCell :=
  ⟨inputs.foldl vecAdd (List.replicate nk V.zero), inputs.length⟩

/-- what `MeanState.result()` returns: `safe_divide(total, count)` — the scalar `0.0` while
no example was seen, otherwise the vector `total / count` (division left to the reader) -/
inductive MeanResult where
  | scalarZero
  | mean (total : List V) (count : Nat)
  deriving DecidableEq, Repr

def MeanCell.result (c : MeanCell) : MeanResult :=
  if c.count = 0 then .scalarZero else .mean c.total c.count

/-- the accumulator: one `MeanState` per configured metric (positional) -/
abbrev State := List MeanCell

/-- `TopKRetrieval(...)`: `_state = defaultdict(MeanState)` -/
def emptyState (cfg : Config) : State :=
  cfg.metrics.map fun _ => ⟨List.replicate cfg.nk V.zero, 0⟩

/-- the Examples × K array of every metric, as `add` returns it -/
def batchVals (cfg : Config) (rows : List (Row α)) : List (List (List V)) :=
  let W := cfg.width rows
  let perRow := rows.map (rowVals cfg W)
  (List.range cfg.metrics.length).map fun j => perRow.map fun vals => vals.getD j []

/-- state of a fresh accumulator after `add(y_true, y_pred)` -/
def ofBatch (cfg : Config) (rows : List (Row α)) : State :=
  (batchVals cfg rows).map (MeanCell.new cfg.nk)

/-- `TopKRetrieval.merge` -/
def mergeState (a b : State) : State := List.zipWith MeanCell.merge a b

/-- `TopKRetrieval.result` (values keyed by position in `metrics`) -/
def resultState (s : State) : List MeanResult := s.map MeanCell.result

/-- `input_type='multiclass'`: `y_true = [[label] for label in y_true]` (same for `y_pred`) -/
def wrapMulticlass (labels : List (α × α)) : List (Row α) :=
  labels.map fun (t, p) => ⟨[t], [p]⟩

/-- the `Mergeable` instance of DESIGN §6 C01 -/
def mergeable (cfg : Config) : Mergeable (Row α) State (List MeanResult) where
  empty := emptyState cfg
  ofBatch := ofBatch cfg
  merge := mergeState
  result := resultState

/-! ## stand-alone `MeanState` / `TupleMeanState` (aggregates/utils.py) on scalar inputs -/

/-- scalar `MeanState`: `(total, count)` -/
structure Mean where
  total : Q
  count : Nat
  deriving DecidableEq, Repr

def Mean.empty : Mean := ⟨some 0, 0⟩
def Mean.new (xs : List Q) : Mean := ⟨xs.foldl Q.add (some 0), xs.length⟩
def Mean.merge (a b : Mean) : Mean := ⟨Q.add a.total b.total, a.count + b.count⟩
/-- `safe_divide(total, count)` -/
def Mean.result (a : Mean) : Q := Q.safeDiv a.total (Q.ofNat a.count)

def meanMergeable : Mergeable Q Mean Q where
  empty := Mean.empty
  ofBatch := Mean.new
  merge := Mean.merge
  result := Mean.result

/-- `TupleMeanState`: `states` (`()` until the first merge) -/
abbrev TupleMean := List Mean

/-- `TupleMeanState.new(*inputs)` -/
def TupleMean.new (cols : List (List Q)) : TupleMean := cols.map Mean.new

/-- `TupleMeanState.merge` (repaired: an empty operand is ignored; an empty receiver adopts
the operand's arity; otherwise `zip(strict=True)`) -/
def TupleMean.merge (a b : TupleMean) : Except ErrKind TupleMean :=
  if b = [] then .ok a
  else if a = [] then .ok (b.map fun s => Mean.merge Mean.empty s)
  else if a.length = b.length then .ok (List.zipWith Mean.merge a b)
  else .error .value

def TupleMean.result (a : TupleMean) : List Q := a.map Mean.result

end MlModel.Agg.Retrieval
