import MlModel.Model.Basic
/-!
# A cell heap for accumulator objects (DESIGN §3 "Object identity and mutation")

C11 says `merge` "only ever modifies its receiver … later updates to either side do not leak into
the other".  In a purely functional model that is true by construction, so the mutable containers
an accumulator references (Python lists, `Counter`s, ndarrays) live in an explicit heap:
a reference is an index, `alloc` appends a cell (rebinding an attribute to a fresh value),
`write` replaces a cell's content (`list.extend/pop`, `dict.update`, `ndarray.__iadd__`).

An accumulator class is a `HClass`: its object record, the *footprint* of an object — the cells
it may write in place (`owned`) and the cells it merely references (`shared`) — and its methods
as heap transformers.  `Sys` is a population of accumulators of one class over one heap, driven by
arbitrary sequences of `make` / `add` / `merge` operations.
-/
namespace MlModel.Agg.Heap

/-- a reference is an index into the heap (a notation, so that `omega` sees plain `Nat`) -/
scoped notation "Ref" => Nat

structure Heap (C : Type) where
  cells : List C
  deriving Repr

variable {C : Type}

def Heap.empty : Heap C := ⟨[]⟩
def Heap.size (h : Heap C) : Nat := h.cells.length
def Heap.read [Inhabited C] (h : Heap C) (r : Ref) : C := h.cells.getD r default
/-- allocate a fresh cell; its reference is the old size -/
def Heap.alloc (h : Heap C) (c : C) : Heap C × Ref := (⟨h.cells ++ [c]⟩, h.cells.length)
/-- in-place update of an existing cell -/
def Heap.write (h : Heap C) (r : Ref) (c : C) : Heap C := ⟨h.cells.set r c⟩

/-- allocate several cells, returning their references in order -/
def Heap.allocs (h : Heap C) : List C → Heap C × List Ref
  | [] => (h, [])
  | c :: cs => (((h.alloc c).1.allocs cs).1, (h.alloc c).2 :: ((h.alloc c).1.allocs cs).2)

structure Footprint where
  /-- cells some method of the object writes in place -/
  owned : List Ref
  /-- cells the object references but no method ever writes -/
  shared : List Ref
  deriving Repr

def Footprint.refs (fp : Footprint) : List Ref := fp.owned ++ fp.shared

/-- an accumulator class over cells `C` and batches `B` -/
structure HClass (C B : Type) where
  Obj : Type
  fp : Obj → Footprint
  /-- `cls()` -/
  make : Heap C → Heap C × Obj
  /-- `acc.add(batch)` -/
  add : Heap C → Obj → B → Heap C × Obj
  /-- `receiver.merge(operand)`; returns the receiver's new record -/
  merge : Heap C → Obj → Obj → Heap C × Obj

/-- a population of accumulators -/
structure Sys {B : Type} (cls : HClass C B) where
  heap : Heap C
  objs : List cls.Obj

inductive Op (B : Type) where
  | make
  | add (i : Nat) (b : B)
  | merge (i j : Nat)

variable {B : Type}

def Sys.init (cls : HClass C B) : Sys cls := ⟨Heap.empty, []⟩

/-- the index of the accumulator an operation may modify -/
def Op.receiver : Op B → Option Nat
  | .make => none
  | .add i _ => some i
  | .merge i _ => some i

def Sys.step {cls : HClass C B} (σ : Sys cls) : Op B → Sys cls
  | .make =>
    let (h, o) := cls.make σ.heap
    ⟨h, σ.objs ++ [o]⟩
  | .add i b =>
    match σ.objs[i]? with
    | some o =>
      let (h, o') := cls.add σ.heap o b
      ⟨h, σ.objs.set i o'⟩
    | none => σ
  | .merge i j =>
    if i = j then σ
    else match σ.objs[i]?, σ.objs[j]? with
      | some s, some o =>
        let (h, s') := cls.merge σ.heap s o
        ⟨h, σ.objs.set i s'⟩
      | _, _ => σ

def Sys.run {cls : HClass C B} (σ : Sys cls) (ops : List (Op B)) : Sys cls := ops.foldl Sys.step σ

end MlModel.Agg.Heap
