import MlModel.Model.Agg.HeapObs
/-!
# Heap model of the `ConfusionMatrixAggFn` state API (aggregates/classification.py:98–135, 635–654)

A state is `None` (`create_state()`) or a `_ConfusionMatrix` object holding four ndarrays
(`tp`, `tn`, `fp`, `fn` — public attributes).  Statement by statement:

```
_ConfusionMatrix.__init__   self.tp = np.asarray(tp) …             alloc ×4 (the arguments are fresh values)
__add__   (cm + state)      tp = self.tp + other.tp …; _ConfusionMatrix(tp, tn, fp, fn)    alloc ×4, reads both
__iadd__  (result += acc)   self.tp += other.tp; self.tn += …; self.fp += …; self.fn += …    write ×4, reads other
update_state(state, batch)  cm = _calculate_confusion_matrix(batch)                          alloc ×4
                            return (cm + state) if state else cm      a NEW object; `state` is not touched
merge_states(states)        result = first non-None state; for the others: result += acc
                            "Only the first state may be modified" (base.py:130): when the first state
                            is None the first non-None state is a LATER one — the repaired code merges
                            into a copy of it (`copy.deepcopy`, alloc ×4); the code before the repair
                            (`fixed = false`) used the later state itself and wrote into it.
get_result(state)           derive_metric(..): arithmetic on the arrays, fresh values, no write
```

The batch enters as its four count arrays (the encoders are the subject of C01 / C07).  A slot of the
population is a *state variable* of the caller: `add i b` is `s[i] = fn.update_state(s[i], b)` and hands
the previous object back as a returned value (the caller may keep and even overwrite it),
`merge i j` is `s[i] = fn.merge_states([s[i], s[j]])`.
-/
namespace MlModel.Agg.Confusion.SH
open MlModel.Agg.Heap

/-- the four array references of one `_ConfusionMatrix` object -/
structure CM where
  tp : Ref
  tn : Ref
  fp : Ref
  fn : Ref
  deriving Repr, DecidableEq

def CM.refs (a : CM) : List Ref := [a.tp, a.tn, a.fp, a.fn]

/-- `None` or an object -/
abbrev St := Option CM

/-- the four count arrays of one batch (flattened) -/
structure Batch where
  tp : List Int
  tn : List Int
  fp : List Int
  fn : List Int
  deriving Repr, DecidableEq

abbrev Cell := List Int

def vadd (a b : List Int) : List Int := List.zipWith (· + ·) a b

/-- `_ConfusionMatrix(tp, tn, fp, fn)` from fresh values -/
def allocCM (h : Heap Cell) (b : Batch) : Heap Cell × CM :=
  let a1 := h.alloc b.tp
  let a2 := a1.1.alloc b.tn
  let a3 := a2.1.alloc b.fp
  let a4 := a3.1.alloc b.fn
  (a4.1, ⟨a1.2, a2.2, a3.2, a4.2⟩)

/-- the value an object currently has -/
def readCM (h : Heap Cell) (a : CM) : Batch := ⟨h.read a.tp, h.read a.tn, h.read a.fp, h.read a.fn⟩

/-- `a + b` (`__add__`): a new object -/
def addNew (h : Heap Cell) (a b : CM) : Heap Cell × CM :=
  allocCM h ⟨vadd (h.read a.tp) (h.read b.tp), vadd (h.read a.tn) (h.read b.tn),
    vadd (h.read a.fp) (h.read b.fp), vadd (h.read a.fn) (h.read b.fn)⟩

/-- `a += b` (`__iadd__`): four in-place writes, one after the other -/
def iadd (h : Heap Cell) (a b : CM) : Heap Cell :=
  let h1 := h.write a.tp (vadd (h.read a.tp) (h.read b.tp))
  let h2 := h1.write a.tn (vadd (h1.read a.tn) (h1.read b.tn))
  let h3 := h2.write a.fp (vadd (h2.read a.fp) (h2.read b.fp))
  h3.write a.fn (vadd (h3.read a.fn) (h3.read b.fn))

/-- `update_state(state, batch)` -/
def update (h : Heap Cell) (s : St) (b : Batch) : Heap Cell × St :=
  let c := allocCM h b
  match s with
  | none => (c.1, some c.2)
  | some st => ((addNew c.1 c.2 st).1, some (addNew c.1 c.2 st).2)

/-- `merge_states([s, o])`; `fixed = false` is the code before the repair -/
def mergeStates (fixed : Bool) (h : Heap Cell) (s o : St) : Heap Cell × St :=
  match s, o with
  | some a, some b => (iadd h a b, some a)
  | some a, none => (h, some a)
  | none, some b => if fixed then ((allocCM h (readCM h b)).1, some (allocCM h (readCM h b)).2) else (h, some b)
  | none, none => (h, none)

def stRefs : St → List Ref
  | none => []
  | some a => a.refs

def cls (fixed : Bool) : HClassR Cell Batch where
  Obj := St
  fp := fun s => ⟨stRefs s, []⟩
  make := fun h => (h, none)
  add := update
  merge := mergeStates fixed
  -- the previous state object stays with the caller
  addOut := fun _ s _ => ⟨stRefs s, []⟩
  -- get_result: numbers computed from the arrays
  result := fun h _ => (h, ⟨[], []⟩)

/-- what a state stands for -/
def absSt (h : Heap Cell) : St → Option Batch
  | none => none
  | some a => some (readCM h a)

/-! ## the value-level population -/

def Batch.add (a b : Batch) : Batch := ⟨vadd a.tp b.tp, vadd a.tn b.tn, vadd a.fp b.fp, vadd a.fn b.fn⟩

def pureStep (accs : List (Option Batch)) : Op Batch → List (Option Batch)
  | .make => accs ++ [none]
  | .add i b =>
    match accs[i]? with
    | some none => accs.set i (some b)
    | some (some s) => accs.set i (some (b.add s))
    | none => accs
  | .merge i j =>
    if i = j then accs
    else match accs[i]?, accs[j]? with
      | some (some a), some (some b) => accs.set i (some (a.add b))
      | some none, some (some b) => accs.set i (some b)
      | _, _ => accs

end MlModel.Agg.Confusion.SH
