import MlModel.Model.Agg.ConfusionArr
import MlModel.Generated.RatesTable
/-!
# Model of `ml_metrics/_src/aggregates/classification.py` (+ the wrappers of
`ml_metrics/_src/metrics/classification.py`)

How raw labels / predictions become `tp, tn, fp, fn` for each input encoding
(`binary`, `multiclass`, `multiclass-multioutput`, `multiclass-indicator`) and each
averaging mode (`binary`, `micro`, `macro`, `samples`), with vocabulary handling,
`pos_label`, top-k, and the three public accumulators
(`ConfusionMatrixAggFn`, `TopKConfusionMatrixAggFn`, `SamplewiseClassification`).
The ~30 derived rates and the `derive_metric` dispatch are **not** written here: they
are the translated definitions of `MlModel/Generated/Rates*.lean`.

Labels are `Int` (the harness codes every distinct Python label injectively).
Python's `set` enumeration order (used by `get_vocab` when no vocabulary is given)
is an external input of the model (`Batch.order`).
-/
namespace MlModel.Agg.Confusion
open MlModel.Generated (Metric)

abbrev Label := Int

/-- `types.InputType` -/
inductive InputType where
  | binary | continuous | continuousMultioutput | multiclass | multioutput | indicator
  deriving DecidableEq, Repr, Inhabited

def InputType.ofValue? : String → Option InputType
  | "binary" => some .binary
  | "continuous" => some .continuous
  | "continuous-multioutput" => some .continuousMultioutput
  | "multiclass" => some .multiclass
  | "multiclass-multioutput" => some .multioutput
  | "multiclass-indicator" => some .indicator
  | _ => none

/-- `types.AverageType` -/
inductive Average where
  | micro | macro | weighted | samples | binary
  deriving DecidableEq, Repr, Inhabited

def Average.ofValue? : String → Option Average
  | "micro" => some .micro
  | "macro" => some .macro
  | "weighted" => some .weighted
  | "samples" => some .samples
  | "binary" => some .binary
  | _ => none

def Average.value : Average → String
  | .micro => "micro" | .macro => "macro" | .weighted => "weighted"
  | .samples => "samples" | .binary => "binary"

/-- a user vocabulary `dict[label, class index]` in insertion order (keys distinct) -/
abbrev Vocab := List (Label × Nat)

/-- `y_true` / `y_pred` as passed: a flat sequence or a sequence of sequences -/
inductive Rows where
  | flat (xs : List Label)
  | nested (xs : List (List Label))
  deriving Repr, DecidableEq, Inhabited

structure Batch where
  yTrue : Rows
  yPred : Rows
  /-- CPython's enumeration order of `set(chain(y_true, y_pred))` (flattened for multi-output);
  read only when the vocabulary has to be deduced from the batch -/
  order : List Label := []
  deriving Repr, Inhabited

/-! ## numpy conversions -/

/-- result of `np.asarray(rows) == pos_label` : a 1-d or 2-d boolean array -/
inductive BNd where
  | b1 (xs : List Bool)
  | b2 (rows : List (List Bool)) (width : Nat)
  deriving Repr, DecidableEq

def BNd.ndim : BNd → Nat
  | .b1 _ => 1
  | .b2 _ _ => 2

/-- `np.asarray(rows) == pos`; ragged nesting is a `ValueError` (numpy ≥ 1.24), `[]` is 1-d -/
def asBool (pos : Label) : Rows → Except ErrKind BNd
  | .flat xs => .ok (.b1 (xs.map (· == pos)))
  | .nested [] => .ok (.b1 [])
  | .nested (r :: rs) =>
    if rs.all (·.length == r.length) then
      .ok (.b2 ((r :: rs).map (·.map (· == pos))) r.length)
    else .error .value

/-! ## `_indicator_confusion_matrix` (classification.py:425–490) -/

/-- the four count arrays of `_ConfusionMatrix` -/
structure CMArr where
  tp : Arr Int
  tn : Arr Int
  fp : Arr Int
  fn : Arr Int
  deriving Repr, DecidableEq, Inhabited

/-- the `axis` chosen from the average (lines 449–456) -/
def axisOf : Average → Except ErrKind (Option Nat)
  | .micro | .binary => .ok none
  | .macro => .ok (some 0)
  | .samples => .ok (some 1)
  | .weighted => .error .notImpl

/-- element-wise subtraction of two count arrays of the same shape (they are sums of equally
shaped matrices along the same axis) -/
def arrSub : Arr Int → Arr Int → Arr Int
  | .s x, .s y => .s (x - y)
  | .v xs, .v ys => .v (List.zipWith (· - ·) xs ys)
  | .m a, .m b => .m (List.zipWith (List.zipWith (· - ·)) a b)
  | a, _ => a

def andRows (a b : List (List Bool)) : List (List Bool) := List.zipWith (List.zipWith (· && ·)) a b
def notRows (a : List (List Bool)) : List (List Bool) := a.map (·.map (!·))

/-- lines 480–490 on `N × W` boolean matrices `true`, `positive` (a 1-d array of `N` entries, which
only occurs with `axis=None`, is written as `N × 1`) -/
def countsOf (axis : Option Nat) (W : Nat) (tr po : List (List Bool)) : CMArr :=
  let negative := notRows po
  let tp := andRows po tr
  let fn := andRows negative tr
  let positiveCnt := sumAxis axis W po
  let tpCnt := sumAxis axis W tp
  let fpCnt := arrSub positiveCnt tpCnt
  let fnCnt := sumAxis axis W fn
  let negativeCnt := sumAxis axis W negative
  let tnCnt := arrSub negativeCnt fnCnt
  { tp := tpCnt, tn := tnCnt, fp := fpCnt, fn := fnCnt }

/-- `positive & true` needs broadcastable shapes; equal row counts are modelled, extent-1
broadcasting is outside the modelled domain (`other`), anything else is numpy's `ValueError` -/
def checkRows (n m : Nat) : Except ErrKind Unit :=
  if n = m then .ok () else if n = 1 ∨ m = 1 then .error .other else .error .value

/-- the body after `true = y_true == pos_label; positive = y_pred == pos_label` -/
def indicatorCore (multiclass : Bool) (avg : Average) (axis : Option Nat) (tr po : BNd) :
    Except ErrKind CMArr :=
  if multiclass && avg == .binary then
    match tr, po with
    | .b2 trows tw, .b2 prows pw => do
      if tw > 2 then throw .value                 -- "Non-binary multiclass indicator input"
      if tw = 0 then throw .index                 -- `true[:, 0]`
      if pw = 0 then throw .index                 -- `positive[:, 0]`
      checkRows trows.length prows.length
      pure (countsOf none 1 (trows.map fun r => [r.headD false]) (prows.map fun r => [r.headD false]))
    | _, _ => throw .value
  else if !multiclass && avg != .binary then
    match tr, po with
    | .b1 t, .b1 p => do                          -- `np.vstack((true, ~true)).T`
      checkRows t.length p.length
      pure (countsOf axis 2 (t.map fun b => [b, !b]) (p.map fun b => [b, !b]))
    | _, _ => throw .other                        -- nested input for a binary problem: not modelled
  else
    match tr, po with
    | .b1 t, .b1 p => do
      checkRows t.length p.length
      pure (countsOf none 1 (t.map ([·])) (p.map ([·])))   -- average = binary here, so axis = None
    | .b2 t tw, .b2 p pw => do
      checkRows t.length p.length
      if tw = pw then pure (countsOf axis tw t p)
      else if tw = 1 ∨ pw = 1 then throw .other else throw .value
    | _, _ => throw .other

def indicatorCM (pos : Label) (multiclass : Bool) (avg : Average) (yt yp : Rows) :
    Except ErrKind CMArr := do
  let axis ← axisOf avg
  let tr ← asBool pos yt
  let po ← asBool pos yp
  if multiclass && (tr.ndim != 2 || po.ndim != 2) then throw .value
  indicatorCore multiclass avg axis tr po

/-! ## vocabulary (`get_vocab`, `_apply_vocab`, lines 493–517) -/

def Vocab.lookup (v : Vocab) (l : Label) : Except ErrKind Nat :=
  match v.find? (·.1 == l) with
  | some (_, i) => .ok i
  | none => .error .key

/-- `vocab or get_vocab(...)`: an empty dict is falsy, so it is deduced as well -/
def effectiveVocab (cfgVocab : Option Vocab) (order : List Label) : Vocab :=
  match cfgVocab with
  | some (x :: xs) => x :: xs
  | _ => order.zipIdx

/-- `result[i][j] = True` on a row of width `W` (numpy `IndexError` beyond the width) -/
def setCell (row : List Bool) (j : Nat) : Except ErrKind (List Bool) :=
  if j < row.length then .ok (row.set j true) else .error .index

/-- `result[i][vocab[elem]] = True` -/
def vocabStep (v : Vocab) (row : List Bool) (e : Label) : Except ErrKind (List Bool) := do
  let j ← v.lookup e
  setCell row j

def applyVocabRow (v : Vocab) (elems : List Label) : Except ErrKind (List Bool) :=
  elems.foldlM (vocabStep v) (List.replicate v.length false)

/-- the rows to iterate: a flat sequence holds one label per example -/
def rowsFor (multioutput : Bool) : Rows → Except ErrKind (List (List Label))
  | .flat xs => if multioutput then (if xs.isEmpty then .ok [] else .error .type) else .ok (xs.map ([·]))
  | .nested xs => if multioutput then .ok xs else (if xs.isEmpty then .ok [] else .error .type)

def applyVocab (v : Vocab) (multioutput : Bool) (rows : Rows) : Except ErrKind (List (List Bool)) := do
  let rs ← rowsFor multioutput rows
  rs.mapM (applyVocabRow v)

/-- `_multiclass_confusion_matrix` (lines 520–553) -/
def multiclassCM (cfgVocab : Option Vocab) (multioutput : Bool) (avg : Average) (b : Batch) :
    Except ErrKind CMArr := do
  let v := effectiveVocab cfgVocab b.order
  let td ← applyVocab v multioutput b.yTrue
  let pd ← applyVocab v multioutput b.yPred
  let axis ← axisOf avg
  indicatorCore true avg axis (.b2 td v.length) (.b2 pd v.length)

/-! ## top-k (`_apply_vocab_at_k`, `_topk_confusion_matrix`, lines 665–726) -/

/-- `result[i][vocab[row[j]]] = True` if the row has a `j`-th prediction -/
def topkCell (v : Vocab) (r : List Bool) : Option Label → Except ErrKind (List Bool)
  | none => .ok r
  | some e => vocabStep v r e

/-- one round `j` of the loop of `_apply_vocab_at_k`: the cells switched on in round `j` -/
def topkRound (v : Vocab) (multioutput : Bool) (j : Nat) (cur : List (List Bool))
    (rows : List (List Label)) : Except ErrKind (List (List Bool)) :=
  (cur.zip rows).mapM fun x =>
    topkCell v x.1 (if multioutput then x.2[j]? else if j = 0 then x.2[0]? else none)

/-- `k_list = set(k_list)` then `j + 1 in k_list` -/
def kMember (kList : List Int) (k : Nat) : Bool := kList.contains (k : Int)

/-- `max(k_list)` (the caller has excluded the empty list) -/
def kMax (kList : List Int) : Int := kList.foldl max (kList.headD 0)

/-- rounds `j, j+1, …, j + fuel - 1`; yields `(k, confusion matrix)` for every `k = j + 1 ∈ k_list` -/
def topkLoop (v : Vocab) (multioutput : Bool) (avg : Average) (axis : Option Nat) (kList : List Int)
    (td : List (List Bool)) (rows : List (List Label)) :
    Nat → Nat → List (List Bool) → Except ErrKind (List (Nat × CMArr))
  | 0, _, _ => .ok []
  | fuel + 1, j, cur => do
    let cur' ← topkRound v multioutput j cur rows
    let here ← if kMember kList (j + 1) then do
        let cm ← indicatorCore true avg axis (.b2 td v.length) (.b2 cur' v.length)
        pure [(j + 1, cm)]
      else pure []
    let rest ← topkLoop v multioutput avg axis kList td rows fuel (j + 1) cur'
    pure (here ++ rest)

/-- `np.asarray((a₁, …, a_K))` of equally shaped 0-d / 1-d arrays -/
def stackArr : List (Arr Int) → Except ErrKind (Arr Int)
  | [] => .error .type
  | xs => do
    if xs.all (fun | .s _ => true | _ => false) then
      pure (.v (xs.filterMap fun | .s x => some x | _ => none))
    else if xs.all (fun | .v _ => true | _ => false) then
      pure (.m (xs.filterMap fun | .v r => some r | _ => none))
    else throw .other

def topkCM (cfgVocab : Option Vocab) (multioutput : Bool) (avg : Average) (kList : List Int)
    (b : Batch) : Except ErrKind CMArr := do
  let v := effectiveVocab cfgVocab b.order
  let td ← applyVocab v multioutput b.yTrue
  -- the generator body starts at the first `next()`: `max(k_list)` of an empty list is a ValueError
  if kList.isEmpty then throw .value
  let rows ← rowsFor multioutput b.yPred
  let axis ← axisOf avg
  let cms ← topkLoop v multioutput avg axis kList td rows (kMax kList).toNat 0
    (rows.map fun _ => List.replicate v.length false)
  -- `_TopKConfusionMatrix(*tuple(zip(*cms)))` without any yield: missing arguments
  if cms.isEmpty then throw .type
  pure { tp := ← stackArr (cms.map (·.2.tp)), tn := ← stackArr (cms.map (·.2.tn)),
         fp := ← stackArr (cms.map (·.2.fp)), fn := ← stackArr (cms.map (·.2.fn)) }

/-! ## configuration and constructors -/

inductive Kind where
  | cm          -- `ConfusionMatrixAggFn`
  | topk        -- `TopKConfusionMatrixAggFn`
  | samplewise  -- `SamplewiseClassification` / `SamplewiseConfusionMatrixAggFn`
  deriving DecidableEq, Repr, Inhabited

/-- constructor arguments as the user writes them -/
structure RawCfg where
  metrics : List String
  /-- `metrics` was a single name, not a sequence: the result is the bare value -/
  single : Bool := false
  posLabel : Label := 1
  inputType : String := "binary"
  average : String := "binary"
  vocab : Option Vocab := none
  kList : List Int := []
  deriving Repr, Inhabited

structure Cfg where
  kind : Kind
  metrics : List Metric
  single : Bool
  posLabel : Label
  /-- `none`: a string that is not an `InputType` (only `SamplewiseClassification` accepts it at
  construction and fails at the first `add`) -/
  input : Option InputType
  average : Average
  vocab : Option Vocab
  kList : List Int
  deriving Repr, Inhabited

def normalizeMetrics (ms : List String) : Except ErrKind (List Metric) :=
  ms.mapM fun s => match Metric.ofValue? s with
    | some m => .ok m
    | none => .error .value

/-- `ConfusionMatrixAggFn.__post_init__` (lines 588–606) -/
def constructCM (r : RawCfg) : Except ErrKind Cfg := do
  if r.average == "samples" then throw .value
  let it ← match InputType.ofValue? r.inputType with
    | some t => pure t | none => throw .value
  let av ← match Average.ofValue? r.average with
    | some a => pure a | none => throw .value
  let ms ← normalizeMetrics r.metrics
  if !(it == .multiclass || it == .multioutput || it == .indicator || it == .binary) then
    throw .notImpl
  if av == .weighted then throw .notImpl
  pure { kind := .cm, metrics := ms, single := r.single, posLabel := r.posLabel, input := some it,
         average := av, vocab := r.vocab, kList := r.kList }

/-- `TopKConfusionMatrixAggFn.__post_init__` (lines 748–757) -/
def constructTopK (r : RawCfg) : Except ErrKind Cfg := do
  let c ← constructCM r
  if !(r.inputType == "multiclass" || r.inputType == "multiclass-multioutput") then throw .value
  pure { c with kind := .topk }

/-- `SamplewiseClassification.__post_init__` (lines 806–816) -/
def constructSamplewise (r : RawCfg) : Except ErrKind Cfg := do
  if r.inputType == "binary" then throw .value
  let ms ← normalizeMetrics r.metrics
  pure { kind := .samplewise, metrics := ms, single := r.single, posLabel := r.posLabel,
         input := InputType.ofValue? r.inputType, average := .samples, vocab := r.vocab, kList := [] }

/-- `metrics.classification.ClassificationAggFn.__init__` (lines 180–220); `kList = []` stands for
both `None` and an empty sequence (`if k_list:`) -/
def constructWrapper (r : RawCfg) : Except ErrKind Cfg :=
  if r.average == "samples" then
    if !r.kList.isEmpty then .error .value else constructSamplewise r
  else if !r.kList.isEmpty then constructTopK r
  else constructCM r

/-! ## the aggregate-function API of the two confusion-matrix accumulators -/

/-- `_calculate_confusion_matrix` of `ConfusionMatrixAggFn` / `TopKConfusionMatrixAggFn` /
`SamplewiseClassification` -/
def batchCM (c : Cfg) (b : Batch) : Except ErrKind CMArr :=
  match c.kind, c.input with
  | .topk, some .multiclass => topkCM c.vocab false c.average c.kList b
  | .topk, some .multioutput => topkCM c.vocab true c.average c.kList b
  | .topk, _ => .error .notImpl
  | .cm, some .binary => indicatorCM c.posLabel false c.average b.yTrue b.yPred
  | .samplewise, some .binary => .error .notImpl
  | _, some .indicator => indicatorCM c.posLabel true c.average b.yTrue b.yPred
  | _, some .multiclass => multiclassCM c.vocab false c.average b
  | _, some .multioutput => multiclassCM c.vocab true c.average b
  | _, _ => .error .notImpl

def CMArr.add (a b : CMArr) : Except ErrKind CMArr := do
  pure { tp := ← Arr.zipWithB (· + ·) a.tp b.tp, tn := ← Arr.zipWithB (· + ·) a.tn b.tn,
         fp := ← Arr.zipWithB (· + ·) a.fp b.fp, fn := ← Arr.zipWithB (· + ·) a.fn b.fn }

def CMArr.iadd (a b : CMArr) : Except ErrKind CMArr := do
  pure { tp := ← a.tp.iaddB b.tp, tn := ← a.tn.iaddB b.tn,
         fp := ← a.fp.iaddB b.fp, fn := ← a.fn.iaddB b.fn }

/-- `create_state()` is `None`; `update_state` (lines 635–639): `(cm + state) if state else cm` -/
def updateState (c : Cfg) (st : Option CMArr) (b : Batch) : Except ErrKind (Option CMArr) := do
  let cm ← batchCM c b
  match st with
  | none => pure (some cm)
  | some s => pure (some (← cm.add s))

/-- `merge_states` (lines 641–653), *as repaired*: states that never saw a batch (`None`) are
skipped; the first remaining state is the receiver of `+=`. -/
def mergeStates (c : Cfg) (states : List (Option CMArr)) : Except ErrKind (Option CMArr) := do
  if (c.average == .weighted || c.average == .macro) && c.vocab.isNone then throw .value
  match states.filterMap id with
  | [] => pure none
  | s :: rest => some <$> rest.foldlM CMArr.iadd s

/-- one accumulator fed batch by batch, starting from `create_state()` -/
def feedApi (c : Cfg) (bs : List Batch) : Except ErrKind (Option CMArr) :=
  bs.foldlM (updateState c) none

/-- every shard has its own accumulator; all of them are handed to one `merge_states` -/
def runSharded (c : Cfg) (shards : List (List Batch)) : Except ErrKind (Option CMArr) := do
  let sts ← shards.mapM (feedApi c)
  mergeStates c sts

/-- a merge plan: a leaf is the state of shard `i`, a node is `merge_states` of its children in order -/
inductive MTree where
  | leaf (i : Nat)
  | node (ts : List MTree)
  deriving Repr, Inhabited

mutual
def evalTree (c : Cfg) (states : List (Option CMArr)) : MTree → Except ErrKind (Option CMArr)
  | .leaf i => match states[i]? with
    | some s => .ok s
    | none => .error .index
  | .node ts => do
    let ss ← evalTrees c states ts
    mergeStates c ss
def evalTrees (c : Cfg) (states : List (Option CMArr)) : List MTree → Except ErrKind (List (Option CMArr))
  | [] => .ok []
  | t :: ts => do
    let s ← evalTree c states t
    let ss ← evalTrees c states ts
    pure (s :: ss)
end

def MTree.leaves : MTree → List Nat
  | .leaf i => [i]
  | .node ts => leavesList ts
where leavesList : List MTree → List Nat
  | [] => []
  | t :: ts => t.leaves ++ leavesList ts

/-! ## results -/

def meanList (xs : List Rat) : Option Rat :=
  if xs.isEmpty then none else some (xs.sum / (xs.length : Rat))

/-- `np.mean(result, axis=axis)` for the axes the code can ask for -/
def meanAxis (axis : Int) : Arr Rat → Except ErrKind (Arr (Option Rat))
  | .s _ => .error .other
  | .v xs => if axis == 0 || axis == -1 then .ok (.s (meanList xs)) else .error .other
  | .m rows =>
    if axis == 1 || axis == -1 then .ok (.v (rows.map meanList))
    else if axis == 0 || axis == -2 then
      .ok (.v ((List.range (rows.headD []).length).map fun c => meanList (rows.map (·.getD c 0))))
    else .error .other

/-- zip the four count arrays into an array of per-cell confusion matrices -/
def CMArr.cells (a : CMArr) : Except ErrKind (Arr (Generated.CM Rat)) := do
  let x ← Arr.zipWithB (fun (tp tn : Int) => ((tp : Rat), (tn : Rat))) a.tp a.tn
  let y ← Arr.zipWithB (fun (fp fn : Int) => ((fp : Rat), (fn : Rat))) a.fp a.fn
  Arr.zipWithB (fun (p : Rat × Rat) (q : Rat × Rat) =>
    ({ tp := p.1, tn := p.2, fp := q.1, fn := q.2 } : Generated.CM Rat)) x y

inductive RVal where
  | cm (c : CMArr)
  | val (a : Arr (Option Rat))
  deriving Repr, DecidableEq

/-- `_ConfusionMatrix.derive_metric(metric, average)` with the translated dispatch and averaging
rule (`Generated.derive`, `Generated.avgAction`) -/
def deriveMetric (sqrt : Rat → Rat) (st : CMArr) (metric : Metric) (average : Option String) :
    Except ErrKind RVal :=
  match Generated.derive sqrt metric with
  | .self => .ok (.cm st)
  | .notImplemented => .error .notImpl
  | .rate f => do
    let cells ← st.cells
    let r := cells.map f
    match Generated.avgAction average with
    | .assertionError => .error .assertion
    | .identity => .ok (.val (r.map some))
    | .meanAxis ax => .val <$> meanAxis ax r
    | .notImplemented => .error .notImpl

/-- the result is a dict keyed by metric, or the bare value when `metrics` was a single name -/
inductive Result where
  | single (v : RVal)
  | dict (kv : List (Metric × RVal))
  deriving Repr, DecidableEq

def packResult (c : Cfg) (kv : List (Metric × RVal)) : Except ErrKind Result :=
  if c.single then
    match kv with
    | (_, v) :: _ => .ok (.single v)
    | [] => .error .key
  else .ok (.dict kv)

/-- `ConfusionMatrixAggFn.get_result` (lines 655–662); a state that never saw a batch is `None` and
`None.derive_metric` is an `AttributeError` -/
def getResult (sqrt : Rat → Rat) (c : Cfg) (st : Option CMArr) : Except ErrKind Result :=
  match st with
  | none => if c.metrics.isEmpty then packResult c [] else .error .attr
  | some s => do
    let kv ← c.metrics.mapM fun m => do
      let v ← deriveMetric sqrt s m (some c.average.value)
      pure (m, v)
    packResult c kv

/-! ## `SamplewiseClassification` (lines 776–889) -/

/-- `_state: defaultdict(MeanState)`: observationally a total map metric ↦ `(total, count)` with
default `MeanState() = (0, 0)` (a missing key and a `(0, 0)` entry cannot be told apart: `result()`
reads `self._state[metric]`, `merge` only adds) -/
abbrev SwState := Metric → Rat × Nat

def SwState.empty : SwState := fun _ => (0, 0)

def SwState.get (s : SwState) (m : Metric) : Rat × Nat := s m

/-- `MeanState.merge` into the entry of `m` (created on demand by the `defaultdict`) -/
def SwState.mergeIn (s : SwState) (m : Metric) (tc : Rat × Nat) : SwState :=
  fun m' => if m' = m then ((s m').1 + tc.1, (s m').2 + tc.2) else s m'

/-- the per-example scores of one batch for one metric (`derive_metric(metric)` with the default
`average=None` on the samples-averaged confusion matrix) -/
def swScores (sqrt : Rat → Rat) (cm : CMArr) (m : Metric) : Except ErrKind (List Rat) := do
  match ← deriveMetric sqrt cm m none with
  | .cm _ => throw .type                   -- `sum(_ConfusionMatrix)`: not iterable
  | .val (.v xs) => pure (xs.filterMap id)
  | .val _ => throw .other

/-- one iteration of the loop of `add`: `result[metric] = score; self._state[metric].add(score)`
with `MeanState.add(score)` = `merge(new(score))`, `new` = `(sum(score), len(score))` -/
def swStep (sqrt : Rat → Rat) (cm : CMArr) (acc : List (Metric × List Rat) × SwState) (m : Metric) :
    Except ErrKind (List (Metric × List Rat) × SwState) := do
  let xs ← swScores sqrt cm m
  pure (acc.1 ++ [(m, xs)], acc.2.mergeIn m (xs.foldl (· + ·) 0, xs.length))

/-- `SamplewiseClassification.add` (lines 862–874): returns the per-example scores, updates the state -/
def swAdd (sqrt : Rat → Rat) (c : Cfg) (st : SwState) (b : Batch) :
    Except ErrKind (List (Metric × List Rat) × SwState) := do
  let cm ← batchCM c b
  c.metrics.foldlM (swStep sqrt cm) ([], st)

/-- `SamplewiseClassification.merge` (lines 880–882): `for key, value in other.state.items():
self._state[key].merge(value)` — entry-wise addition (keys `other` does not have add nothing) -/
def swMerge (a b : SwState) : SwState := fun m => ((a m).1 + (b m).1, (a m).2 + (b m).2)

/-- `safe_divide(total, count)` -/
def meanStateResult (tc : Rat × Nat) : Rat := if tc.2 = 0 then 0 else tc.1 / (tc.2 : Rat)

/-- `SamplewiseClassification.result` (lines 884–889) -/
def swResult (c : Cfg) (st : SwState) : Except ErrKind Result :=
  packResult c (c.metrics.map fun m => (m, .val (.s (some (meanStateResult (st.get m))))))

/-! ## the one-shot function API (`metrics/classification.py`, `metrics/utils.py`) -/

def Rows.flatLabels : Rows → List Label
  | .flat xs => xs
  | .nested xs => xs.flatten

/-- `_validate_pos_label`: the labels of the given vocabulary, else of the data -/
def labelsFor (r : RawCfg) (b : Batch) : List Label :=
  match r.vocab with
  | some (x :: xs) => (x :: xs).map Prod.fst
  | _ => b.yTrue.flatLabels ++ b.yPred.flatLabels

/-- `utils.verify_input`: for binary input with binary average the positive label must occur in the
vocabulary (given, or deduced from the data) -/
def verifyInput (r : RawCfg) (b : Batch) : Except ErrKind Unit :=
  if r.average == "binary" && r.inputType == "binary" then
    if (labelsFor r b).contains r.posLabel then .ok () else .error .value
  else .ok ()

/-- the accumulator path of the wrapper `ClassificationAggFn`: `create_state`, one `update_state`,
`get_result` (= `AggregateFn.__call__`) -/
def accumulate (sqrt : Rat → Rat) (c : Cfg) (b : Batch) : Except ErrKind Result :=
  match c.kind with
  | .samplewise => do
    let r ← swAdd sqrt c SwState.empty b
    swResult c r.2
  | _ => do
    let st ← feedApi c [b]
    getResult sqrt c st

/-- the module-level functions `precision(y_true, y_pred, ...)`, …, `classification_metrics(...)`:
`verify_input`, then `ClassificationAggFn(...)(y_true, y_pred)` -/
def oneShot (sqrt : Rat → Rat) (r : RawCfg) (b : Batch) : Except ErrKind Result := do
  verifyInput r b
  let c ← constructWrapper r
  accumulate sqrt c b

end MlModel.Agg.Confusion
