import MlModel.Model.Agg.HeapObs
/-!
# Heap model of `Histogram` (aggregates/rolling_stats.py:175–257): the bin arrays

```
__post_init__   self._hist, self._bin_edges = np.histogram(a=(), ..)      alloc ×2
new(inputs)     np.histogram(inputs, ..) -> Histogram(_hist=.., _bin_edges=..)   alloc ×2 (the batch object's arrays)
merge(other)    self._hist = self._hist + hist                             alloc (rebinding; nothing is written in place)
add(inputs)     batch = self.new(inputs); self.merge(batch); return batch  (CallableMetric.add, base.py:86)
result()        HistogramResult(hist=self._hist.copy(), bin_edges=self._bin_edges.copy())   alloc ×2
.hist / .bin_edges  the accumulator's own arrays
```

No method ever writes an existing array: `owned = []`, the two arrays of an accumulator are `shared`
cells.  The batch enters as its bin counts (binning itself is the subject of C07).
-/
namespace MlModel.Agg.Rolling.HistH
open MlModel.Agg.Heap

abbrev Cell := List Rat

structure Obj where
  hist : Ref
  edges : Ref
  deriving Repr, DecidableEq

def vadd (a b : List Rat) : List Rat := List.zipWith (· + ·) a b

def make (edges : List Rat) (h : Heap Cell) : Heap Cell × Obj :=
  let a1 := h.alloc (List.replicate (edges.length - 1) 0)
  let a2 := a1.1.alloc edges
  (a2.1, ⟨a1.2, a2.2⟩)

/-- `self._hist = self._hist + hist` -/
def mergeArr (h : Heap Cell) (s : Obj) (oh : Ref) : Heap Cell × Obj :=
  let a := h.alloc (vadd (h.read s.hist) (h.read oh))
  (a.1, { s with hist := a.2 })

def addFull (edges : List Rat) (h : Heap Cell) (s : Obj) (b : List Rat) : Heap Cell × Obj × Out :=
  let a1 := h.alloc b
  let a2 := a1.1.alloc edges
  let m := mergeArr a2.1 s a1.2
  (m.1, m.2, ⟨[a1.2, a2.2], []⟩)

def merge (h : Heap Cell) (s o : Obj) : Heap Cell × Obj := mergeArr h s o.hist

def result (h : Heap Cell) (s : Obj) : Heap Cell × Out :=
  let a1 := h.alloc (h.read s.hist)
  let a2 := a1.1.alloc (a1.1.read s.edges)
  (a2.1, ⟨[a1.2, a2.2], []⟩)

def cls (edges : List Rat) : HClassR Cell (List Rat) where
  Obj := Obj
  fp := fun o => ⟨[], [o.hist, o.edges]⟩
  make := make edges
  add := fun h s b => ((addFull edges h s b).1, (addFull edges h s b).2.1)
  merge := merge
  addOut := fun h s b => (addFull edges h s b).2.2
  result := result

end MlModel.Agg.Rolling.HistH
