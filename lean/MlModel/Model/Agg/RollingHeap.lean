import MlModel.Model.Agg.Heap
import MlModel.Model.Agg.RollingSamplers
import MlModel.Model.Agg.RollingMeanVar
/-!
# Heap models of the container-holding accumulators of the rolling family

Which Python containers each method *writes* and which it merely *references*:

* `UnboundedSampler` — `_samples` is a tuple of lists.  `new` copies every column into a fresh list
  (`list(input_)`), the first `merge` allocates fresh empty lists, `merge` then `extend`s the
  receiver's own lists in place, reading the operand's.
* `ValueAccumulator` — never writes: the first `merge` *adopts the operand's objects*
  (`self._data = tuple(other.data)`), later merges bind fresh concatenations.
* `FixedSizeSample` — `add` extends / assigns into its own reservoir list; `merge` pops from its own
  reservoir and from a *copy* of the operand's (repaired code; `fixed = false` pops from the
  operand's list itself, §7-F3) and rebinds `_reservoir` to a fresh list.
* `MeanAndVariance` on 2-D input — `_count += other.count` writes the receiver's count array in
  place once it is an array; `_mean` is always rebound to a fresh array; `_var` is rebound, and is
  the operand's very array (`self._var = other.var`) while the receiver has no valid entry yet.
-/
namespace MlModel.Agg.Rolling.H
open MlModel.Agg.Heap MlModel.Agg.Rolling

variable {α : Type}

/-! ## UnboundedSampler -/

structure USObj where
  refs : List Ref
  multi : Bool
  deriving Repr

/-- `for samples, others in zip(..): samples.extend(others)` -/
def extendAll (h : Heap (List α)) : List (Ref × Ref) → Heap (List α)
  | [] => h
  | (rs, ro) :: ps => extendAll (h.write rs (h.read rs ++ h.read ro)) ps

def usMerge (h : Heap (List α)) (s o : USObj) : Heap (List α) × USObj :=
  if o.refs.isEmpty then (h, s)
  else
    let hs : Heap (List α) × USObj :=
      if s.refs.isEmpty then
        ((h.allocs (o.refs.map fun _ => [])).1, ⟨(h.allocs (o.refs.map fun _ => [])).2, o.multi⟩)
      else (h, s)
    (extendAll hs.1 (hs.2.refs.zip o.refs), hs.2)

def usClass (α : Type) : HClass (List α) (List (List α)) where
  Obj := USObj
  fp := fun o => ⟨o.refs, []⟩
  make := fun h => (h, ⟨[], true⟩)
  add := fun h s cols =>                     -- new(): list(input_) for every column, then merge
    usMerge (h.allocs cols).1 s ⟨(h.allocs cols).2, cols.length != 1⟩
  merge := usMerge

/-- what `samples` reads -/
def usAbs (h : Heap (List α)) (o : USObj) : US α := ⟨o.refs.map h.read, o.multi⟩

/-! ## ValueAccumulator (pure `concat_fn`, or none) -/

structure VAObj where
  refs : List Ref
  deriving Repr

/-- `tuple(concat_fn(x, y) for x, y in zip(..))` : fresh objects -/
def concatAll (h : Heap (List α)) : List (Ref × Ref) → Heap (List α) × List Ref
  | [] => (h, [])
  | (rs, ro) :: ps =>
    ((concatAll (h.alloc (h.read rs ++ h.read ro)).1 ps).1,
     (h.alloc (h.read rs ++ h.read ro)).2 :: (concatAll (h.alloc (h.read rs ++ h.read ro)).1 ps).2)

def vaMerge (h : Heap (List α)) (s o : VAObj) : Heap (List α) × VAObj :=
  if o.refs.isEmpty then (h, s)
  else if s.refs.isEmpty then (h, ⟨o.refs⟩)      -- self._data = tuple(other.data): the same objects
  else ((concatAll h (s.refs.zip o.refs)).1, ⟨(concatAll h (s.refs.zip o.refs)).2⟩)

def vaClass (α : Type) : HClass (List α) (List (List α)) where
  Obj := VAObj
  fp := fun o => ⟨[], o.refs⟩
  make := fun h => (h, ⟨[]⟩)
  add := fun h s cols =>                     -- the fed objects (or their one-element wrappers)
    vaMerge (h.allocs cols).1 s ⟨(h.allocs cols).2⟩
  merge := vaMerge

def vaAbs (h : Heap (List α)) (o : VAObj) : VA α := o.refs.map h.read

/-! ## FixedSizeSample -/

structure FSSObj where
  maxSize : Nat
  ref : Ref
  reviewed : Nat
  /-- the object's own generator state -/
  rng : Rng
  deriving Repr

def fssAbs (h : Heap (List α)) (o : FSSObj) : FSS α := ⟨o.maxSize, h.read o.ref, o.reviewed⟩

def fssMerge (fixed : Bool) (h : Heap (List α)) (s o : FSSObj) : Heap (List α) × FSSObj :=
  match FSS.mergeLoop s.maxSize (s.maxSize + 1) [] (h.read s.ref) s.reviewed (h.read o.ref) o.reviewed s.rng with
  | .ok (result, restO, restN, rng) =>
    -- pops on the receiver's own list; original code: pops on the operand's list as well;
    -- then `self._reservoir = <fresh list>`
    let h2 := if fixed then h.write s.ref restO else (h.write s.ref restO).write o.ref restN
    ((h2.alloc result).1,
     { s with ref := (h2.alloc result).2, reviewed := s.reviewed + o.reviewed, rng := rng })
  | .error _ => (h, s)

def fssClass (α : Type) (fixed : Bool) (maxSize : Nat) (seed : Rng) : HClass (List α) (List α) where
  Obj := FSSObj
  fp := fun o => ⟨[o.ref], []⟩
  make := fun h => ((h.alloc []).1, ⟨maxSize, (h.alloc []).2, 0, seed⟩)
  add := fun h s samples =>
    (h.write s.ref ((fssAbs h s).add samples s.rng).1.reservoir,
     { s with reviewed := ((fssAbs h s).add samples s.rng).1.reviewed,
              rng := ((fssAbs h s).add samples s.rng).2 })
  merge := fssMerge fixed

/-! ## MeanAndVariance, 2-D input: the three ndarray fields -/

/-- a field is a Python scalar (immutable) or an ndarray in the heap -/
inductive Fld where
  | sc
  | arr (r : Ref)
  deriving Repr, DecidableEq

def Fld.refs : Fld → List Ref
  | .sc => []
  | .arr r => [r]

/-- the statistics themselves are the pure state `st` (Model/Agg/RollingMeanVar.lean); the object
adds where the three arrays live.  A cell holds one array (`count` as rationals). -/
structure MVObj where
  st : MV
  count : Fld
  mean : Fld
  var : Fld
  deriving Repr

def countArr (s : MV) : List F := s.cols.map fun c => some (c.count : Rat)
def meanArr (s : MV) : List F := s.cols.map (·.mean)
def varArr (s : MV) : List F := s.cols.map (·.var)

/-- `new(batch)` for a 2-D batch: three fresh arrays -/
def mvNew (h : Heap (List F)) (k : Nat) (rows : List (List F)) : Heap (List F) × MVObj :=
  let st := MV.ofRows k rows
  let (h1, rc) := h.alloc (countArr st)
  let (h2, rm) := h1.alloc (meanArr st)
  let (h3, rv) := h2.alloc (varArr st)
  (h3, ⟨st, .arr rc, .arr rm, .arr rv⟩)

def mvMerge (h : Heap (List F)) (s o : MVObj) : Heap (List F) × MVObj :=
  if o.st.allVarNan then (h, s)                       -- :392 early return
  else
    let st' := MV.mergeCore true s.st o.st
    -- self._count += other.count : in place iff it already is an ndarray
    let (h1, fc) : Heap (List F) × Fld :=
      match s.count with
      | .arr r => (h.write r (countArr st'), .arr r)
      | .sc => let (h1, r) := h.alloc (countArr st'); (h1, .arr r)
    -- self._mean = nanadd(..) : a fresh array
    let (h2, rm) := h1.alloc (meanArr st')
    -- self._var = other.var (the same array) while the receiver is all-NaN, else a fresh array
    let (h3, fv) : Heap (List F) × Fld :=
      if s.st.allVarNan then (h2, o.var)
      else let (h3, r) := h2.alloc (varArr st'); (h3, .arr r)
    (h3, ⟨st', fc, .arr rm, fv⟩)

def mvClass (k : Nat) : HClass (List F) (List (List F)) where
  Obj := MVObj
  fp := fun o => ⟨o.count.refs, o.mean.refs ++ o.var.refs⟩
  make := fun h => (h, ⟨MV.fresh, .sc, .sc, .sc⟩)
  add := fun h s rows =>
    let (h1, b) := mvNew h k rows
    mvMerge h1 s b
  merge := mvMerge

end MlModel.Agg.Rolling.H
