import MlModel.Model.Agg.RollingMath
import MlModel.Model.Agg.Core
/-!
# `Mean`, `MeanAndVariance`, `Var` (aggregates/rolling_stats.py:281–428)

numpy keeps three parallel arrays `_count`, `_mean`, `_var` (one entry per column of a 2-D
batch; scalars for a 1-D batch and for a fresh accumulator).  The model keeps the transposed
but isomorphic representation: a list of per-column records `Col`, a flag `vec` (arrays vs
scalars) and `_input_shape`.  All arithmetic is per column and written out literally
(`Col.mergeMean` = rolling_stats.py:354–357, `Col.mergeVar` = :401–410); the whole-array guards
(`np.all(np.isnan(..))`, :346/:392/:396), the shape check (:348–353) and numpy broadcasting of
a scalar against an array live in `MV.mergeCore` / `MV.mergeErr`.

`fixed = true` is the repaired code (the `fix:` commit for §7-F2 combines the two weighted
variances with `math_utils.nanadd`), `fixed = false` the original (`+`), kept for the witness.
-/
namespace MlModel.Agg.Rolling

/-- statistics of one column -/
structure Col where
  count : Nat
  mean : F
  var : F
  deriving DecidableEq, Repr, Inhabited

/-- a fresh accumulator's scalars: `_count = 0, _mean = nan, _var = nan` (rolling_stats.py:289–290,370) -/
def Col.fresh : Col := ⟨0, none, none⟩

/-- one column of `MeanAndVariance.new` (rolling_stats.py:376–381):
`np.sum(~np.isnan(b))`, `np.nanmean(b)`, `np.nanvar(b)` (population variance, ddof = 0);
all-NaN or empty column ↦ `(0, nan, nan)`. -/
def Col.ofList (xs : List F) : Col :=
  let v := valid xs
  if v.length = 0 then Col.fresh
  else
    let n : Rat := (v.length : Nat)
    let mu := rsum v / n
    ⟨v.length, some mu, some (rsum (v.map fun x => (x - mu) * (x - mu)) / n)⟩

/-- `Mean.new` has no `_var` -/
def Col.ofListMean (xs : List F) : Col := { Col.ofList xs with var := none }

/-- `Mean.merge`, one column (rolling_stats.py:354–357) -/
def Col.mergeMean (s o : Col) : Col :=
  let count := s.count + o.count
  let meanDiff := nanadd o.mean (fneg s.mean)
  let update := fmul meanDiff (some (safeDivide o.count count))
  { count := count, mean := nanadd s.mean update, var := s.var }

/-- the pooled variance, one column (rolling_stats.py:401–410); `prev` is the receiver before
`super().merge(other)`, `s` after it. -/
def Col.mergeVar (fixed : Bool) (prev s o : Col) : F :=
  let prevRatio : F := some (safeDivide prev.count s.count)
  let otherRatio : F := some (safeDivide o.count s.count)
  let deltaMean := nanadd s.mean (fneg prev.mean)
  let meanDiff := nanadd o.mean (fneg s.mean)
  let pooled :=
    if fixed then nanadd (fmul prevRatio prev.var) (fmul otherRatio o.var)
    else fadd (fmul prevRatio prev.var) (fmul otherRatio o.var)
  fadd (fadd pooled (fmul prevRatio (fmul deltaMean deltaMean)))
    (fmul otherRatio (fmul meanDiff meanDiff))

/-- the complete per-column update when no guard fires -/
def Col.merge (fixed : Bool) (s o : Col) : Col :=
  let s1 := s.mergeMean o
  { s1 with var := Col.mergeVar fixed s s1 o }

/-- accumulator state -/
structure MV where
  /-- statistics are arrays (a 2-D batch was seen) rather than scalars -/
  vec : Bool
  /-- one entry when `vec = false` -/
  cols : List Col
  /-- `_input_shape` -/
  shape : List Nat
  deriving DecidableEq, Repr

/-- `MeanAndVariance()` -/
def MV.fresh : MV := ⟨false, [Col.fresh], []⟩

/-- `new(batch)` for a 1-D batch -/
def MV.ofList (xs : List F) : MV :=
  ⟨false, [Col.ofList xs], if xs.isEmpty then [] else [xs.length]⟩

/-- column `j` of a list of rows -/
def colOf (rows : List (List F)) (j : Nat) : List F := rows.map fun r => r.getD j none

/-- `new(batch)` for a 2-D batch of `k` columns (`axis=0` reductions; `_input_shape = batch.shape
if batch.size else ()`) -/
def MV.ofRows (k : Nat) (rows : List (List F)) : MV :=
  ⟨true, (List.range k).map fun j => Col.ofList (colOf rows j),
    if rows.isEmpty || k == 0 then [] else [rows.length, k]⟩

/-- numpy broadcasting of the receiver's and the operand's statistics, paired per column -/
def MV.bcast (s o : MV) : Bool × List (Col × Col) :=
  if s.vec == o.vec then (s.vec, s.cols.zip o.cols)
  else if o.vec then (true, o.cols.map fun c => (s.cols.headD Col.fresh, c))
  else (true, s.cols.map fun c => (c, o.cols.headD Col.fresh))

def MV.allVarNan (s : MV) : Bool := s.cols.all fun c => c.var.isNone
def MV.allMeanNan (s : MV) : Bool := s.cols.all fun c => c.mean.isNone

def MV.mergeShape (s o : MV) : List Nat := if s.shape.isEmpty then o.shape else s.shape

/-- `MeanAndVariance.merge` (rolling_stats.py:391–410), the state it leaves when it does not raise.
(The guard of `Mean.merge`, :346, cannot fire after :392 did not: `new` produces `var` NaN exactly
where `mean` is NaN.) -/
def MV.mergeCore (fixed : Bool) (s o : MV) : MV :=
  if o.allVarNan then s
  else
    let (vec', ps) := MV.bcast s o
    let selfAllNan := s.allVarNan
    { vec := vec'
      cols := ps.map fun (a, b) =>
        let a1 := a.mergeMean b
        { a1 with var := if selfAllNan then b.var else Col.mergeVar fixed a a1 b }
      shape := MV.mergeShape s o }

/-- does `merge` raise?  `ValueError` of the shape check (:349) or of numpy broadcasting (:354) -/
def MV.mergeErr (s o : MV) : Option ErrKind :=
  if o.allVarNan then none
  else if !o.shape.isEmpty && o.shape.tail != (MV.mergeShape s o).tail then some .value
  else if s.vec == o.vec && s.cols.length != o.cols.length then some .value
  else none

def MV.merge (fixed : Bool) (s o : MV) : Except ErrKind MV :=
  match MV.mergeErr s o with
  | some e => .error e
  | none => .ok (MV.mergeCore fixed s o)

/-- `Mean.merge` (rolling_stats.py:345–357) for the `Mean` class (no variance) -/
def MV.mergeMeanCore (s o : MV) : MV :=
  if o.allMeanNan then s
  else
    let (vec', ps) := MV.bcast s o
    { vec := vec', cols := ps.map fun (a, b) => a.mergeMean b, shape := MV.mergeShape s o }

def MV.mergeMeanErr (s o : MV) : Option ErrKind :=
  if o.allMeanNan then none
  else if !o.shape.isEmpty && o.shape.tail != (MV.mergeShape s o).tail then some .value
  else if s.vec == o.vec && s.cols.length != o.cols.length then some .value
  else none

def MV.mergeMean (s o : MV) : Except ErrKind MV :=
  match MV.mergeMeanErr s o with
  | some e => .error e
  | none => .ok (MV.mergeMeanCore s o)

/-- the `Mean` class's `new` (no `_var`) -/
def MV.dropVar (s : MV) : MV := { s with cols := s.cols.map fun c => { c with var := none } }

/-- `total` property (rolling_stats.py:338): `where(count > 0, mean * count, 0)` -/
def Col.total (c : Col) : F := fwhere (decide (c.count > 0)) (fmul c.mean (some (c.count : Rat))) (some 0)

/-- everything a caller can read off a `MeanAndVariance` result; `stddev` is `sqrt(var)` and stays
symbolic (the radicand is `var`). -/
structure MVResult where
  vec : Bool
  count : List Nat
  mean : List F
  var : List F
  total : List F
  deriving DecidableEq, Repr

def MV.result (s : MV) : MVResult :=
  ⟨s.vec, s.cols.map (·.count), s.cols.map (·.mean), s.cols.map (·.var), s.cols.map Col.total⟩

/-! ## The one-shot function API (`ml_metrics/_src/metrics/rolling_stats.py`)

`var(batch) = MeanAndVariance().add(batch).var`, and likewise `stddev`, `mean`, `count`, `total`.
`CallableMetric.add` *returns the batch's own statistics* `new(batch)` (base.py:86–90), so the five
functions read the fields of `new(batch)`, not of the accumulator. -/

def FnApi.ofList (xs : List F) : MVResult := (MV.ofList xs).result
def FnApi.ofRows (k : Nat) (rows : List (List F)) : MVResult := (MV.ofRows k rows).result

/-! ## The well-typed families as `Mergeable` instances -/

/-- 1-D input: examples are floats.  `MeanAndVariance` / `Var` (`Var.result` is the `var` field). -/
def mv1 : Mergeable F MV MVResult where
  empty := MV.fresh
  ofBatch := MV.ofList
  merge := MV.mergeCore true
  result := MV.result

/-- a row of exactly `k` floats -/
abbrev Row (k : Nat) := { r : List F // r.length = k }

/-- 2-D input of `k` columns.  `ofBatch` is the state of a fresh accumulator after one
`add(batch)`, i.e. `fresh.merge(new(batch))`; it differs from `new(batch)` only for a batch with
no non-NaN entry at all, which leaves the accumulator fresh (:392) — see
`C01_rolling_meanvar2_add_faithful`. -/
def mv2 (k : Nat) : Mergeable (Row k) MV MVResult where
  empty := MV.fresh
  ofBatch := fun rows => MV.mergeCore true MV.fresh (MV.ofRows k (rows.map (·.val)))
  merge := MV.mergeCore true
  result := MV.result

/-- the `Mean` class, 1-D -/
def mean1 : Mergeable F MV MVResult where
  empty := MV.fresh
  ofBatch := fun xs => (MV.ofList xs).dropVar
  merge := MV.mergeMeanCore
  result := MV.result

/-- the `Mean` class, 2-D -/
def mean2 (k : Nat) : Mergeable (Row k) MV MVResult where
  empty := MV.fresh
  ofBatch := fun rows => MV.mergeMeanCore MV.fresh (MV.ofRows k (rows.map (·.val))).dropVar
  merge := MV.mergeMeanCore
  result := MV.result

end MlModel.Agg.Rolling
