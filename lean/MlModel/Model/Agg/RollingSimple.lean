import MlModel.Model.Agg.RollingMath
import MlModel.Model.Agg.Core
/-!
# Sum-like accumulators of the "rolling" family

`MeanState`, `TupleMeanState`, `FrequencyState` (aggregates/utils.py), `Histogram`, `Counter`,
`MinMaxAndCount`, `R2Tjur`, `R2TjurRelative`, `RRegression`, `SymmetricPredictionDifference`
(aggregates/rolling_stats.py).  Each model mirrors `new`/`add`, `merge`, `result` of the class;
configurations the code rejects are `Except ErrKind`.
-/
namespace MlModel.Agg.Rolling

/-! ## MeanState (utils.py:25–41) -/

structure MeanState where
  total : Rat
  count : Nat
  deriving DecidableEq, Repr

/-- `MeanState()` : `total = 0.0, count = 0` -/
def MeanState.fresh : MeanState := ⟨0, 0⟩
/-- `new(inputs)` : `MeanState(total=sum(inputs), count=len(inputs))` -/
def MeanState.ofList (xs : List Rat) : MeanState := ⟨rsum xs, xs.length⟩
/-- `merge` : both fields `+=` -/
def MeanState.merge (s o : MeanState) : MeanState := ⟨s.total + o.total, s.count + o.count⟩
/-- `result` : `safe_divide(total, count)` -/
def MeanState.result (s : MeanState) : Rat := safeDivide s.total s.count

def meanState : Mergeable Rat MeanState Rat where
  empty := MeanState.fresh
  ofBatch := MeanState.ofList
  merge := MeanState.merge
  result := MeanState.result

/-! ## rows of `k` aligned columns (metrics whose `new(*inputs)` takes several columns) -/

/-- a row of exactly `k` values -/
abbrev RowOf (α : Type) (k : Nat) := { r : List α // r.length = k }

/-- the `k` columns of a list of rows -/
def colsOf {α : Type} [Inhabited α] (k : Nat) (rows : List (List α)) : List (List α) :=
  (List.range k).map fun j => rows.map fun r => r.getD j default

/-! ## TupleMeanState (utils.py:44–60) -/

/-- `states` tuple; `TupleMeanState()` has `()` -/
abbrev TMS := List MeanState

/-- `new(*inputs)` : one `MeanState().new(x)` per column -/
def TMS.ofCols (cols : List (List Rat)) : TMS := cols.map MeanState.ofList

/-- `merge`.  `fixed = true` is the repaired code (a never-updated operand is a no-op);
`fixed = false` the original, where `zip(self.states, (), strict=True)` raises. -/
def TMS.merge (fixed : Bool) (s o : TMS) : Except ErrKind TMS :=
  if fixed && o.isEmpty then .ok s
  else
    let s' := if s.isEmpty then o.map fun _ => MeanState.fresh else s
    if s'.length != o.length then .error .value
    else .ok (List.zipWith MeanState.merge s' o)

def TMS.result (s : TMS) : List Rat := s.map MeanState.result

def TMS.mergeT (s o : TMS) : TMS := match TMS.merge true s o with | .ok r => r | .error _ => s

def tupleMeanState (k : Nat) : Mergeable (RowOf Rat k) TMS (List Rat) where
  empty := []
  ofBatch := fun rows => TMS.ofCols (colsOf k (rows.map (·.val)))
  merge := TMS.mergeT
  result := TMS.result

/-! ## Counter (rolling_stats.py:255–278) and FrequencyState (utils.py:63–82)

A `collections.Counter` is an association list in insertion order; `Counter.get` is the
multiplicity of a key (dict lookup with default 0). -/

abbrev CounterS := List (Int × Nat)

/-- `self[k] = n + self.get(k, 0)` -/
def CounterS.inc : CounterS → Int → Nat → CounterS
  | [], k, n => [(k, n)]
  | (k', m) :: r, k, n => if k' = k then (k', m + n) :: r else (k', m) :: CounterS.inc r k n

/-- `collections.Counter(inputs)` -/
def CounterS.ofList (xs : List Int) : CounterS := xs.foldl (fun c x => c.inc x 1) []

/-- `self._counter.update(other.counter)` -/
def CounterS.merge (s o : CounterS) : CounterS := o.foldl (fun c p => c.inc p.1 p.2) s

/-- multiplicity of `k` -/
def CounterS.get (c : CounterS) (k : Int) : Nat := (c.map fun p => if p.1 = k then p.2 else 0).sum

def counter : Mergeable Int CounterS (Int → Nat) where
  empty := []
  ofBatch := CounterS.ofList
  merge := CounterS.merge
  result := CounterS.get

structure FreqState where
  counter : CounterS
  count : Nat
  deriving Repr

def FreqState.fresh : FreqState := ⟨[], 0⟩
/-- `merge` : `counter.update(other.counter); count += other.count` -/
def FreqState.merge (s o : FreqState) : FreqState := ⟨s.counter.merge o.counter, s.count + o.count⟩
/-- `result` before sorting: relative frequency of each key, `safe_divide(value, count)` -/
def FreqState.freq (s : FreqState) (k : Int) : Rat := safeDivide (s.counter.get k) s.count

/-! ## Histogram (rolling_stats.py:170–252) -/

/-- `np.histogram` bin membership: `[lo, hi)`, the right-most bin is closed; NaN is in no bin -/
def inBin (lo hi : Rat) (last : Bool) (x : F) : Bool :=
  match x with
  | none => false
  | some v => decide (lo ≤ v) && (decide (v < hi) || (last && decide (v = hi)))

/-- `np.histogram(values, bins=edges, weights=weights)[0]` -/
def histOf (edges : List Rat) (xs : List (F × Rat)) : List Rat :=
  let n := edges.length - 1
  (List.range n).map fun i =>
    rsum ((xs.filter fun p => inBin (edges.getD i 0) (edges.getD (i + 1) 0) (i + 1 == n) p.1).map (·.2))

/-- `np.linspace(lo, hi, n + 1)` -/
def linspace (lo hi : Rat) (n : Nat) : List Rat :=
  (List.range (n + 1)).map fun (i : Nat) => lo + (i : Rat) * (hi - lo) / (n : Rat)

/-- how the bins are configured -/
inductive BinSpec where
  /-- `bins=int, range=(lo, hi)` -/
  | uniform (bins : Nat) (lo hi : Rat)
  /-- `bins=int, range=None`: numpy deduces the range from each batch -/
  | auto (bins : Nat)
  /-- `bins=sequence` -/
  | explicit (edges : List Rat)
  deriving Repr

def sortedLE : List Rat → Bool
  | a :: b :: r => decide (a ≤ b) && sortedLE (b :: r)
  | _ => true

def lmin : List Rat → Option Rat
  | [] => none
  | a :: r => some (r.foldl min a)
def lmax : List Rat → Option Rat
  | [] => none
  | a :: r => some (r.foldl max a)

/-- `np.histogram`'s `_get_outer_edges` + `linspace` / the explicit-edges check, for one batch -/
def BinSpec.edgesFor (b : BinSpec) (values : List F) : Except ErrKind (List Rat) :=
  let outer (bins : Nat) (lo hi : Rat) : Except ErrKind (List Rat) :=
    if bins = 0 then .error .value
    else if hi < lo then .error .value
    else if lo = hi then .ok (linspace (lo - 1/2) (hi + 1/2) bins)
    else .ok (linspace lo hi bins)
  match b with
  | .uniform bins lo hi => outer bins lo hi
  | .auto bins =>
    if bins = 0 then .error .value
    else if values.isEmpty then outer bins 0 1
    else if values.any Option.isNone then .error .value   -- "autodetected range of [nan, nan] is not finite"
    else match lmin (valid values), lmax (valid values) with
      | some lo, some hi => outer bins lo hi
      | _, _ => outer bins 0 1
  | .explicit edges => if sortedLE edges then .ok edges else .error .value

structure Hist where
  hist : List Rat
  edges : List Rat
  deriving DecidableEq, Repr

/-- `Histogram(range=.., bins=..)` : `np.histogram((), bins, range)` -/
def Hist.make (b : BinSpec) : Except ErrKind Hist := do
  let e ← b.edgesFor []
  return ⟨histOf e [], e⟩

/-- `new(inputs, weights)` -/
def Hist.ofBatch (b : BinSpec) (xs : List (F × Rat)) : Except ErrKind Hist := do
  let e ← b.edgesFor (xs.map (·.1))
  return ⟨histOf e xs, e⟩

/-- `merge` : bin edges must be equal (`ValueError` otherwise), `_hist = _hist + hist` -/
def Hist.merge (s o : Hist) : Except ErrKind Hist :=
  if s.edges != o.edges then .error .value
  else .ok ⟨List.zipWith (· + ·) s.hist o.hist, s.edges⟩

/-- the well-typed family: fixed edges (`uniform` or `explicit` bins); state = the counts -/
def histogram (edges : List Rat) : Mergeable (F × Rat) (List Rat) (List Rat × List Rat) where
  empty := histOf edges []
  ofBatch := histOf edges
  merge := List.zipWith (· + ·)
  result := fun h => (h, edges)

/-! ## MinMaxAndCount (rolling_stats.py:432–489), `axis=None`, no `batch_score_fn` -/

structure MMC where
  count : Nat
  /-- `none` = `np.inf` -/
  min : Option Rat
  max : Rat
  deriving DecidableEq, Repr

/-- `MinMaxAndCount()` : `_count = 0, _min = inf, _max = 0` -/
def MMC.fresh : MMC := ⟨0, none, 0⟩

/-- `np.minimum(inf-or-a, b)` -/
def ominL (a : Option Rat) (b : Rat) : Rat := match a with | none => b | some a => min a b
def ominO (a b : Option Rat) : Option Rat :=
  match a, b with | none, b => b | a, none => a | some a, some b => some (min a b)

/-- `add(inputs)` : `np.min` of an empty array raises `ValueError` (after `_count += 0`) -/
def MMC.add (s : MMC) (xs : List Rat) : Except ErrKind MMC :=
  match lmin xs, lmax xs with
  | some lo, some hi => .ok ⟨s.count + xs.length, some (ominL s.min lo), Max.max s.max hi⟩
  | _, _ => .error .value

def MMC.merge (s o : MMC) : MMC := ⟨s.count + o.count, ominO s.min o.min, Max.max s.max o.max⟩

/-- the state of a fresh accumulator after `add(xs)` (unchanged when `add` raises) -/
def MMC.ofList (xs : List Rat) : MMC := match MMC.fresh.add xs with | .ok s => s | .error _ => MMC.fresh

def minMaxAndCount : Mergeable Rat MMC MMC where
  empty := MMC.fresh
  ofBatch := MMC.ofList
  merge := MMC.merge
  result := id

/-! ## R2Tjur / R2TjurRelative (rolling_stats.py:530–619); examples are `(y_true, y_pred)` -/

structure Tjur where
  sumYTrue : Rat
  sumYPred : Rat
  sumNegYTrue : Rat
  sumNegYPred : Rat
  deriving DecidableEq, Repr

def Tjur.fresh : Tjur := ⟨0, 0, 0, 0⟩
def Tjur.merge (s o : Tjur) : Tjur :=
  ⟨s.sumYTrue + o.sumYTrue, s.sumYPred + o.sumYPred, s.sumNegYTrue + o.sumNegYTrue,
   s.sumNegYPred + o.sumNegYPred⟩
/-- the sums `add` accumulates for one batch (rolling_stats.py:573–578) -/
def Tjur.ofList (xs : List (Rat × Rat)) : Tjur :=
  ⟨rsum (xs.map (·.1)), rsum (xs.map fun p => p.1 * p.2), rsum (xs.map fun p => 1 - p.1),
   rsum (xs.map fun p => (1 - p.1) * p.2)⟩
/-- `R2Tjur.result` (`math.isclose(x, 0)` with the default tolerances is `x == 0`) -/
def Tjur.result (s : Tjur) : F :=
  if s.sumYTrue = 0 || s.sumNegYTrue = 0 then none
  else some (s.sumYPred / s.sumYTrue - s.sumNegYPred / s.sumNegYTrue)
/-- `R2TjurRelative.result` -/
def Tjur.resultRel (s : Tjur) : F :=
  if s.sumYTrue = 0 || s.sumNegYPred = 0 then none
  else some (s.sumYPred * s.sumNegYTrue / s.sumYTrue / s.sumNegYPred)

def r2Tjur : Mergeable (Rat × Rat) Tjur F where
  empty := Tjur.fresh
  ofBatch := Tjur.ofList
  merge := Tjur.merge
  result := Tjur.result

def r2TjurRelative : Mergeable (Rat × Rat) Tjur F := { r2Tjur with result := Tjur.resultRel }

/-! ## RRegression (rolling_stats.py:622–742), 1-D `x`; examples are `(x, y)` -/

structure RReg where
  n : Nat
  sumX : Rat
  sumY : Rat
  sumXX : Rat
  sumYY : Rat
  sumXY : Rat
  deriving DecidableEq, Repr

def RReg.fresh : RReg := ⟨0, 0, 0, 0, 0, 0⟩
def RReg.merge (s o : RReg) : RReg :=
  ⟨s.n + o.n, s.sumX + o.sumX, s.sumY + o.sumY, s.sumXX + o.sumXX, s.sumYY + o.sumYY,
   s.sumXY + o.sumXY⟩
def RReg.ofList (xs : List (Rat × Rat)) : RReg :=
  ⟨xs.length, rsum (xs.map (·.1)), rsum (xs.map (·.2)), rsum (xs.map fun p => p.1 * p.1),
   rsum (xs.map fun p => p.2 * p.2), rsum (xs.map fun p => p.1 * p.2)⟩

/-- `result()` with the square roots left symbolic:
`numerator / (sqrt radX * sqrt radY)`; `none` when `num_samples = 0` (division by zero) -/
structure RRegResult where
  numerator : Rat
  radX : Rat
  radY : Rat
  deriving DecidableEq, Repr

def RReg.result (center : Bool) (s : RReg) : Option RRegResult :=
  if s.n = 0 then none
  else if center then
    some ⟨s.sumXY - s.sumX * s.sumY / s.n, s.sumXX - s.sumX * s.sumX / s.n,
          s.sumYY - s.sumY * s.sumY / s.n⟩
  else some ⟨s.sumXY, s.sumXX, s.sumYY⟩

def rRegression (center : Bool) : Mergeable (Rat × Rat) RReg (Option RRegResult) where
  empty := RReg.fresh
  ofBatch := RReg.ofList
  merge := RReg.merge
  result := RReg.result center

/-! ## SymmetricPredictionDifference (rolling_stats.py:745–796); examples are `(x, y)` -/

structure SPD where
  n : Nat
  sumHalf : Rat
  deriving DecidableEq, Repr

def SPD.fresh : SPD := ⟨0, 0⟩
def SPD.merge (s o : SPD) : SPD := ⟨s.n + o.n, s.sumHalf + o.sumHalf⟩
def SPD.ofList (xs : List (Rat × Rat)) : SPD :=
  ⟨xs.length, rsum (xs.map fun p => safeDivide (rabs (p.1 - p.2)) (rabs (p.1 + p.2)))⟩
def SPD.result (s : SPD) : F := if s.n = 0 then none else some (2 * s.sumHalf / s.n)

def symPredDiff : Mergeable (Rat × Rat) SPD F where
  empty := SPD.fresh
  ofBatch := SPD.ofList
  merge := SPD.merge
  result := SPD.result

end MlModel.Agg.Rolling
