import MlModel.Model.Agg.Heap
/-!
# Accumulator populations whose methods hand objects back to the caller (work package C11T)

`Model/Agg/Heap.lean` drives `make` / `add` / `merge`.  Two more channels through which an
accumulator's arrays can escape are modelled here:

* `add` **returns a batch object** (`ThresholdedRetrieval.add` returns the batch's
  `_ThresholdedConfusionMatrix`, `CallableMetric.add` returns `self.new(batch)`);
* `result()` **returns a value that contains arrays** — freshly computed ones, or the very array
  an attribute of the accumulator references.

A returned value is an `Out`: the references of its arrays, split into `priv` (arrays nobody else
references at the moment they are returned) and `exposed` (arrays the accumulator itself keeps
referencing).  The caller keeps every returned value (`SysR.outs`) and may **overwrite the content of
any private array it was handed** (`OpR.poke`) — the "mutate one side, read the other" probe of the
harness as an operation of the model.  `Lemmas/AggHeapObs.lean` proves, for every class obeying
`HLawsR`, over every interleaving of make / add / merge / result / poke on any number of
accumulators: separation, frame (also for `result` and `poke`: they change no accumulator at
all), and that a returned value keeps the content of every one of its arrays for ever unless the
caller itself pokes it.
-/
namespace MlModel.Agg.Heap

variable {C B : Type}

/-- a value handed to the caller: its arrays, in a fixed order (`priv ++ exposed`) -/
structure Out where
  /-- arrays only the returned value references -/
  priv : List Ref
  /-- arrays that the accumulator keeps referencing (never written by any method) -/
  exposed : List Ref
  deriving Repr, DecidableEq

def Out.refs (o : Out) : List Ref := o.priv ++ o.exposed

/-- an accumulator class whose `add` and `result` return objects -/
structure HClassR (C B : Type) extends HClass C B where
  /-- the arrays of the object `add` returns (references into the heap *after* the call) -/
  addOut : Heap C → Obj → B → Out
  /-- `acc.result()`: may allocate; the arrays reachable from the returned value -/
  result : Heap C → Obj → Heap C × Out

structure SysR (cls : HClassR C B) where
  heap : Heap C
  objs : List cls.Obj
  /-- every value returned so far, oldest first -/
  outs : List Out

inductive OpR (B C : Type) where
  | base (op : Op B)
  /-- `outs.append(accs[i].result())` -/
  | result (i : Nat)
  /-- `outs[k].<n-th private array>[...] = c` : the caller overwrites an array it was handed -/
  | poke (k n : Nat) (c : C)

def SysR.init (cls : HClassR C B) : SysR cls := ⟨Heap.empty, [], []⟩

/-- the accumulators alone -/
def SysR.base {cls : HClassR C B} (σ : SysR cls) : Sys cls.toHClass := ⟨σ.heap, σ.objs⟩

/-- the receiver of an operation (`result` and `poke` have none: they may modify nobody) -/
def OpR.receiver : OpR B C → Option Nat
  | .base op => op.receiver
  | .result _ => none
  | .poke _ _ _ => none

/-- the private array a `poke` targets -/
def SysR.pokeRef {cls : HClassR C B} (σ : SysR cls) (k n : Nat) : Option Ref :=
  (σ.outs[k]?).bind fun o => o.priv[n]?

def SysR.step {cls : HClassR C B} (σ : SysR cls) : OpR B C → SysR cls
  | .base op =>
    let σ' := σ.base.step op
    let outs := match op with
      | .add i b =>
        match σ.objs[i]? with
        | some o => σ.outs ++ [cls.addOut σ.heap o b]
        | none => σ.outs
      | _ => σ.outs
    ⟨σ'.heap, σ'.objs, outs⟩
  | .result i =>
    match σ.objs[i]? with
    | some o => ⟨(cls.result σ.heap o).1, σ.objs, σ.outs ++ [(cls.result σ.heap o).2]⟩
    | none => σ
  | .poke k n c =>
    match σ.pokeRef k n with
    | some r => ⟨σ.heap.write r c, σ.objs, σ.outs⟩
    | none => σ

def SysR.run {cls : HClassR C B} (σ : SysR cls) (ops : List (OpR B C)) : SysR cls :=
  ops.foldl SysR.step σ

end MlModel.Agg.Heap
