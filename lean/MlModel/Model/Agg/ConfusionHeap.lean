import MlModel.Model.Agg.Confusion
/-!
# Cell-heap view of `_ConfusionMatrix` (for the aliasing part of C11)

A `_ConfusionMatrix` object holds four numpy arrays.  `np.asarray(fresh value)` in `__init__`
allocates them; `__add__` (used by `update_state`: `cm + state`) builds a **new** object from
freshly computed sums; `__iadd__` (used by `merge_states`: `result += accumulator`) performs
`self.tp += other.tp` … i.e. **in-place writes to the receiver's four arrays** and only reads the
operand.  The heap is a list of cells, a reference is an index.
-/
namespace MlModel.Agg.Confusion

abbrev Heap := List (Arr Int)

/-- the four array references of one `_ConfusionMatrix` object -/
structure CMRef where
  tp : Nat
  tn : Nat
  fp : Nat
  fn : Nat
  deriving Repr, DecidableEq

def CMRef.refs (r : CMRef) : List Nat := [r.tp, r.tn, r.fp, r.fn]

def Heap.cell (h : Heap) (i : Nat) : Arr Int := h.getD i default

/-- the value an object currently has -/
def Heap.read (h : Heap) (r : CMRef) : CMArr :=
  { tp := h.cell r.tp, tn := h.cell r.tn, fp := h.cell r.fp, fn := h.cell r.fn }

/-- `_ConfusionMatrix(tp, tn, fp, fn)`: four new cells at the end of the heap -/
def Heap.alloc (h : Heap) (cm : CMArr) : Heap × CMRef :=
  (h ++ [cm.tp, cm.tn, cm.fp, cm.fn],
   { tp := h.length, tn := h.length + 1, fp := h.length + 2, fn := h.length + 3 })

/-- `__add__` (classification.py:130–135): reads both objects, allocates the sum -/
def Heap.addNew (h : Heap) (a b : CMRef) : Except ErrKind (Heap × CMRef) := do
  let r ← (h.read a).add (h.read b)
  pure (h.alloc r)

/-- `__iadd__` (classification.py:123–128): writes the receiver's cells, one after the other; the
four arrays of an object always have one shape, so either the first `+=` raises or none does -/
def Heap.iadd (h : Heap) (a b : CMRef) : Except ErrKind Heap := do
  let tp ← (h.cell a.tp).iaddB (h.cell b.tp)
  let h1 : Heap := h.set a.tp tp
  let tn ← (h1.cell a.tn).iaddB (h1.cell b.tn)
  let h2 : Heap := h1.set a.tn tn
  let fp ← (h2.cell a.fp).iaddB (h2.cell b.fp)
  let h3 : Heap := h2.set a.fp fp
  let fn ← (h3.cell a.fn).iaddB (h3.cell b.fn)
  pure (h3.set a.fn fn)

end MlModel.Agg.Confusion
