import MlModel.Model.Basic
/-!
# The few numpy array operations the confusion-matrix code uses, on nested lists

`Arr α` is a numpy array of dimension 0, 1 or 2 (`_ConfusionMatrix.tp/tn/fp/fn` are
0-d for `micro`/`binary`, 1-d (per class) for `macro` or (per k) for top-k `micro`, and
2-d (k × class) for top-k `macro`).  Element-wise binary operations follow numpy's
broadcasting rules (equal extent, or extent 1 on either side, else `ValueError`);
the in-place form (`+=`) additionally requires the result to have the receiver's shape.
-/
namespace MlModel.Agg.Confusion

inductive Arr (α : Type) where
  | s (x : α)
  | v (xs : List α)
  | m (rows : List (List α))
  deriving Repr, DecidableEq, Inhabited

variable {α β γ : Type}

def Arr.map (f : α → β) : Arr α → Arr β
  | .s x => .s (f x)
  | .v xs => .v (xs.map f)
  | .m rows => .m (rows.map (·.map f))

/-- numpy `shape` (a 2-d array without rows reports width 0) -/
def Arr.shape : Arr α → List Nat
  | .s _ => []
  | .v xs => [xs.length]
  | .m rows => [rows.length, (rows.headD []).length]

/-- broadcasting of two 1-d extents -/
def bcast1 (f : α → β → γ) (a : List α) (b : List β) : Except ErrKind (List γ) :=
  if a.length = b.length then .ok (List.zipWith f a b)
  else match a, b with
    | [x], _ => .ok (b.map (f x))
    | _, [y] => .ok (a.map (f · y))
    | _, _ => .error .value

/-- element-wise binary operation with numpy broadcasting -/
def Arr.zipWithB (f : α → β → γ) : Arr α → Arr β → Except ErrKind (Arr γ)
  | .s x, .s y => .ok (.s (f x y))
  | .s x, .v ys => .ok (.v (ys.map (f x)))
  | .v xs, .s y => .ok (.v (xs.map (f · y)))
  | .s x, .m rows => .ok (.m (rows.map (·.map (f x))))
  | .m rows, .s y => .ok (.m (rows.map (·.map (f · y))))
  | .v xs, .v ys => .v <$> bcast1 f xs ys
  | .v xs, .m rows => .m <$> rows.mapM (bcast1 f xs ·)
  | .m rows, .v ys => .m <$> rows.mapM (bcast1 f · ys)
  | .m a, .m b =>
    if a.length = b.length then .m <$> (a.zip b).mapM (fun (r, r') => bcast1 f r r')
    else match a, b with
      | [r], _ => .m <$> b.mapM (bcast1 f r ·)
      | _, [r'] => .m <$> a.mapM (bcast1 f · r')
      | _, _ => .error .value

/-- `a += b` on arrays: broadcast `b` into `a`'s shape, or `ValueError` -/
def Arr.iaddB [Add α] (a b : Arr α) : Except ErrKind (Arr α) := do
  let r ← Arr.zipWithB (· + ·) a b
  if r.shape = a.shape then .ok r else .error .value

/-- number of `True` entries -/
def cnt (bs : List Bool) : Int := (bs.count true : Nat)

/-- `x.sum(axis=axis)` of an `N × W` boolean matrix given as a list of rows -/
def sumAxis (axis : Option Nat) (W : Nat) (rows : List (List Bool)) : Arr Int :=
  match axis with
  | none => .s (rows.map cnt).sum
  | some 0 => .v ((List.range W).map fun c => cnt (rows.map (·.getD c false)))
  | some _ => .v (rows.map cnt)

end MlModel.Agg.Confusion
