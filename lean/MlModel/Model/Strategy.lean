import MlModel.Model.Basic
import MlModel.Model.Agg.Core
import MlModel.Model.Rebatch
import MlModel.Model.Shard
/-!
# Execution strategies of a pipeline (chainables/transform.py, utils/iter_utils.py, chainables/orchestrate.py)

A pipeline is a list of *stages* (`TransformRunner`s, one per named transform,
transform.py:871-892).  A stage is a chain of operators (`runner.fns`, folded over the input
iterator by `iter_fn`, transform.py:136-144) followed by zero or more aggregates that are all fed the
stage's *output* elements, one `update_state` per emitted element (transform.py:189-197, 311-341).
The stream elements are opaque (`E`); an operator is either

* **row-wise** `f : E → List E` — `apply`/`assign`/`select` without `batch_size` (one output per
  input), `filter` (zero or one), or any per-element flat-map: it looks at one element at a time;
* a **re-batcher** `g : List E → List E` — an operator with `batch_size`/`fn_batch_size`
  (`rebatched_args`, C19): a stateful stream function that may cut elements differently.

The four strategies are functions/relations over this model:

* `stageOuts` — sequential (`num_threads = 0`): `ChainedRunner.iterate` (transform.py:638-647);
* `Stage.fuse` / `fuse?` — `TreeTransform.chain` of equally named transforms = `_chain_and_fuse`
  (transform.py:849-862, with the repair of finding F-C03-fuse), versus chaining as separate stages;
  `items` is the operator list a pipeline was built from;
* `Stage.Exec` / `Exec` — `num_threads = n` (`MultiplexIterator`, iter_utils.py:322-374): `n` producers
  each run the operator chain over their part of the input (`data_source.shard(i, n)`, or what the
  shared lock-protected iterator happens to hand to thread `i`), the consumer receives their outputs
  in *some* interleaving.  Both nondeterministic choices are over-approximated by "any partition, any
  permutation" (what exactly-once delivery, C04/C13, guarantees); `Interleave` shows that every real
  interleaving is covered;
* `shardParts` / `Agg.shardedState` — `make(shard=ShardConfig(i, k))` per shard, then `merge_states`;
* `staged` — `run_pipeline_interleaved` without workers (orchestrate.py:400-415, 426-467): stage `i`
  enqueues its runner's output into its `result_q`, stage `i+1` iterates that queue (one producer, one
  consumer); the queue's effect is a parameter `deliver` which C04 (FIFO) shows to be the identity.
-/
namespace MlModel.Strategy
open MlModel.Agg MlModel.Shard

universe u

/-- one operator of a runner (`tree_fns.TreeFn` and subclasses) -/
inductive Op (E : Type) where
  | row (f : E → List E)
  | rebatch (g : List E → List E)

variable {E : Type}

/-- `fn.iterate(input_iterator)` as a function on finite streams -/
def Op.run : Op E → List E → List E
  | .row f, xs => xs.flatMap f
  | .rebatch g, xs => g xs

def Op.isRow : Op E → Bool
  | .row _ => true
  | .rebatch _ => false

/-- `iter_fn` (transform.py:136-144): `for fn in runner.fns: result = fn.iterate(result)` -/
def runOps (ops : List (Op E)) (xs : List E) : List E :=
  ops.foldl (fun acc o => o.run acc) xs

/-- One aggregate of a stage (`TreeAggregateFn` around an `Aggregatable`): a mergeable metric
together with `sel`, the batch it extracts from one stream element (`_get_inputs`). -/
structure Agg (E : Type) where
  X : Type
  S : Type
  R : Type
  m : Mergeable X S R
  sel : E → List X

/-- `agg_state` of a runner iterator that has emitted `out`: `update_state` once per element, in
emission order, starting from `create_state()` (transform.py:192-193, 305-341). -/
def Agg.state (a : Agg E) (out : List E) : a.S := a.m.feed (out.map a.sel)

/-- `agg_result` -/
def Agg.result (a : Agg E) (out : List E) : a.R := a.m.result (a.state out)

/-- One named transform / `TransformRunner`. -/
structure Stage (E : Type) where
  ops : List (Op E)
  aggs : List (Agg E)
  /-- `num_threads` -/
  threads : Nat := 0

/-! ## Sequential chained run -/

/-- `ChainedRunner.iterate` (transform.py:638-647) with `num_threads = 0` everywhere: the output
stream of every stage, in order.  The last one is what `iterate()` yields; stage `i`'s aggregates are
fed entry `i`. -/
def stageOuts : List (Stage E) → List E → List (List E)
  | [], _ => []
  | s :: rest, xs => runOps s.ops xs :: stageOuts rest (runOps s.ops xs)

/-- what `iterate()` yields -/
def output : List (Stage E) → List E → List E
  | [], xs => xs
  | s :: rest, xs => output rest (runOps s.ops xs)

/-- every aggregate of the pipeline, in order, with the stream it is fed — the `AggregateResult` is
`a.result feed` for each pair (transform.py:514-532). -/
def aggFeeds : List (Stage E) → List E → List (Agg E × List E)
  | [], _ => []
  | s :: rest, xs => s.aggs.map (fun a => (a, runOps s.ops xs)) ++ aggFeeds rest (runOps s.ops xs)

/-! ## Fusing and chaining -/

/-- the operator list a pipeline is built from: operators and aggregates in program order -/
inductive Item (E : Type) where
  | op (o : Op E)
  | agg (a : Agg E)

def Stage.items (s : Stage E) : List (Item E) := s.ops.map .op ++ s.aggs.map .agg

def items (p : List (Stage E)) : List (Item E) := p.flatMap Stage.items

/-- reference semantics of an operator list: operators transform the stream, an aggregate observes the
stream at its position -/
def flatOut : List (Item E) → List E → List E
  | [], xs => xs
  | .op o :: r, xs => flatOut r (o.run xs)
  | .agg _ :: r, xs => flatOut r xs

def flatFeeds : List (Item E) → List E → List (Agg E × List E)
  | [], _ => []
  | .op o :: r, xs => flatFeeds r (o.run xs)
  | .agg a :: r, xs => (a, xs) :: flatFeeds r xs

/-- `_chain_and_fuse` (transform.py:849-862): `fns = self.fns + child.fns`,
`agg_fns = self.agg_fns + child.agg_fns`; `num_threads` (and name, data source) stay the parent's. -/
def Stage.fuse (a b : Stage E) : Stage E :=
  { ops := a.ops ++ b.ops, aggs := a.aggs ++ b.aggs, threads := a.threads }

/-- Fusing moves the child's functions in front of the parent's aggregates; the repaired code refuses
that (`ValueError`, like `_maybe_new_transform`'s "Aggregation has to be the last node"). -/
def Stage.fusable (a b : Stage E) : Bool := a.aggs.isEmpty || b.ops.isEmpty

def Stage.fuse? (a b : Stage E) : Except ErrKind (Stage E) :=
  if a.fusable b then .ok (a.fuse b) else .error .value

/-! ### Building a pipeline through the public API

A pipeline is written as a sequence of transforms `TreeTransform.new(name=…)`, each filled by builder
calls, and joined with `.chain(...)`: equal names fuse, different names start a new stage. -/

inductive Attach where
  | chain   -- the child has a new name
  | fuse    -- the child has the name of the last transform of the chain
  deriving DecidableEq, Repr

def Stage.empty : Stage E := { ops := [], aggs := [] }

/-- one builder call: `apply`/`assign`/`select`/`filter`/`batch` → `_maybe_new_transform`
(transform.py:1129-1137: `ValueError` "Aggregation has to be the last node" once the transform has
aggregates); `aggregate`/`add_aggregate` → `_maybe_new_agg_transform` (1118-1127) -/
def Stage.push? (s : Stage E) : Item E → Except ErrKind (Stage E)
  | .op o => if s.aggs.isEmpty then .ok { s with ops := s.ops ++ [o] } else .error .value
  | .agg a => .ok { s with aggs := s.aggs ++ [a] }

/-- a transform built by builder calls in program order -/
def mkTransform (its : List (Item E)) : Except ErrKind (Stage E) := its.foldlM Stage.push? Stage.empty

/-- `p.chain(t)` (transform.py:820-847) -/
def attach (p : List (Stage E)) (how : Attach) (t : Stage E) : Except ErrKind (List (Stage E)) :=
  match how, p.getLast? with
  | .fuse, some l =>
    match l.fuse? t with
    | .ok s => .ok (p.dropLast ++ [s])
    | .error e => .error e
  | _, _ => .ok (p ++ [t])

/-- the whole pipeline: every transform is built, then chained onto what came before -/
def assemble (ts : List (Attach × List (Item E))) : Except ErrKind (List (Stage E)) :=
  ts.foldlM (fun p t =>
    match mkTransform t.2 with
    | .ok s => attach p t.1 s
    | .error e => .error e) []

/-! ## Threads -/

/-- `ys` is an interleaving of the lists `parts` (each part's order is kept): what a consumer of
`piter_multiplex` receives when producer `j` enqueues `parts[j]` (C04: FIFO + per-producer order). -/
inductive Interleave {α : Type} : List (List α) → List α → Prop where
  | done {parts : List (List α)} : (∀ p ∈ parts, p = []) → Interleave parts []
  | take {parts : List (List α)} {ys : List α} (j : Nat) (a : α) (rest : List α) :
      parts[j]? = some (a :: rest) → Interleave (parts.set j rest) ys → Interleave parts (a :: ys)

/-- One stage under its execution strategy.
`seq`: `num_threads = 0` — `iter_fn(input)`.
`par`: `num_threads ≠ 0` — producer `j` computes `iter_fn(parts[j])`; `parts` is *any* split of the
input (any number of parts) and the consumer sees *any* arrangement of the produced elements. -/
inductive Stage.Exec (s : Stage E) (xs : List E) : List E → Prop where
  | seq : s.threads = 0 → Stage.Exec s xs (runOps s.ops xs)
  | par (parts : List (List E)) (ys : List E) : s.threads ≠ 0 → parts.flatten.Perm xs →
      ys.Perm (parts.flatMap (runOps s.ops)) → Stage.Exec s xs ys

/-- A chained run in which every stage uses its own strategy; stage `i+1` consumes what stage `i`
emitted, in the order it emitted it.  Third index: the output stream of every stage. -/
inductive Exec : List (Stage E) → List E → List (List E) → Prop where
  | nil {xs : List E} : Exec [] xs []
  | cons {s : Stage E} {rest : List (Stage E)} {xs ys : List E} {outs : List (List E)} :
      s.Exec xs ys → Exec rest ys outs → Exec (s :: rest) xs (ys :: outs)

/-! ## Shards -/

/-- `list(d.shard(i, k))` for `i = 0..k-1` (`make(shard=ShardConfig(i, k))` →
`data_source.from_state`, transform.py:269-271, io.py:94-102) -/
def shardParts {α : Type} (d : DS) (k : Nat) (xs : List α) : List (List α) :=
  (List.range k).map fun (i : Nat) => (d.shardCore (i : Int) (k : Int) 0).elems xs

/-- the aggregate's state after every part was run on its own (operator chain `ops` = the operators of
all stages up to the aggregate's) and the states were merged with `merge_states` in part order
(transform.py:343-374: a left fold of `agg_fn.merge_states([acc, state])`) -/
def Agg.shardedState (a : Agg E) (ops : List (Op E)) (parts : List (List E)) : a.S :=
  a.m.mergeStates (parts.map fun part => a.state (runOps ops part))

/-! ## The in-process interleaved stage runner -/

/-- `run_pipeline_interleaved` with no worker pool: every stage runs
`result_q.enqueue_from_iterator(transform.make().iterate(iter(input_queue)))` on its own thread.
`deliver` maps what a stage's producer enqueued to what the next stage's iterator dequeued. -/
def staged (deliver : List E → List E) : List (Stage E) → List E → List (List E)
  | [], _ => []
  | s :: rest, xs => deliver (runOps s.ops xs) :: staged deliver rest (deliver (runOps s.ops xs))

/-! ## Concrete instance used by the driver and the witnesses

An element is a batch = a list of rows, a row = a list of integers (its columns). -/

abbrev Row := List Int
abbrev Bat := List Row

/-- re-batching on the row view: `rebatched_args(..., batch_size=t)` over rectangular batches cuts the
concatenated rows into slices of `t` (C19_rows + C19_sizes); `t = 0` is the identity.  Batches
without rows are swallowed (nothing is buffered for them). -/
def rebatchRows (t : Nat) (bs : List Bat) : List Bat :=
  if t = 0 then bs else Rebatch.sliced t bs.flatten

/-- aggregate library of the correspondence: the metric sees column 0 of every row -/
def col0 (b : Bat) : List Int := b.map fun r => r.headD 0

/-- count / sum / sum of squares: a model of `MeanAndVariance` on exact integers
(result = `(count, sum, sumsq)`; the harness derives mean and variance) -/
def momentsM : Mergeable Int (Nat × Int × Int) (Nat × Int × Int) where
  empty := (0, 0, 0)
  ofBatch xs := (xs.length, xs.sum, (xs.map fun x => x * x).sum)
  merge s t := (s.1 + t.1, s.2.1 + t.2.1, s.2.2 + t.2.2)
  result s := s

/-- an order-carrying accumulator: collects everything it is fed -/
def collectM : Mergeable Int (List Int) (List Int) where
  empty := []
  ofBatch xs := xs
  merge s t := s ++ t
  result s := s

def momentsAgg : Agg Bat := { X := Int, S := Nat × Int × Int, R := Nat × Int × Int, m := momentsM, sel := col0 }
def collectAgg : Agg Bat := { X := Int, S := List Int, R := List Int, m := collectM, sel := col0 }

end MlModel.Strategy
