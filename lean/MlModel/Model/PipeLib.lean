import MlModel.Model.Pipe
/-!
# The fixed library of named user callables (DESIGN §3 "User callables")

Implemented once here and once in Python (`harness/lib_pipe.py`, `FNS`); the correspondence draws
operator functions from it, the theorems quantify over all functions.  A function is described by
its parameter list (Python binds positional and keyword arguments; a mismatch is a `TypeError`)
and its body on the bound values.
-/
namespace MlModel.Pipe.Lib

/-- Python ints, with `bool` as its subclass -/
def asInt : Val → Option Int
  | .int i => some i
  | .bool b => some (if b then 1 else 0)
  | _ => none

/-- bind `args` / `kwargs` to the parameters `params` (`def f(p0, p1, ..)`): `TypeError` on a
missing, surplus, unknown or doubly given argument -/
def bind (params : List String) (args : List Val) (kwargs : List (String × Val)) : Except ErrKind (List Val) :=
  if args.length > params.length then .error .type
  else
    let restNames := params.drop args.length
    if kwargs.any (fun (k, _) => !restNames.contains k) then .error .type
    else if (kwargs.map (·.1)).eraseDups.length != kwargs.length then .error .type
    else
      match restNames.mapM (fun n => lookup n kwargs) with
      | some vs => .ok (args ++ vs)
      | none => .error .type

inductive NamedFn where
  | add1 | pair | swap | sum2 | isEven | neg | ident | mkDict | triple | wrap1 | empty | first
  | const (c : Val)
  | tup
  | counter
  | gt (c : Int)
  /-- `fail_on(S, kind)`: raises `kind` when its argument is in `S`, returns it otherwise -/
  | failOn (s : List Int) (kind : ErrKind)
  /-- batch (column) functions -/
  | vAdd1 | vPair
  | vFailOn (s : List Int) (kind : ErrKind)
  | vSum2
  deriving Repr, Inhabited

def inSet (s : List Int) (v : Val) : Bool :=
  match asInt v with
  | some i => s.contains i
  | none => false

def intOp (f : Int → Val) (v : Val) : Except ErrKind Val :=
  match asInt v with
  | some i => .ok (f i)
  | none => .error .type

/-- element-wise on a list / tuple column (`[f(x) for x in xs]`: always a list) -/
def colMap (f : Val → Except ErrKind Val) : Val → Except ErrKind Val
  | .list xs => (xs.mapM f).map .list
  | .tuple xs => (xs.mapM f).map .list
  | _ => .error .type

def colRows : Val → Except ErrKind (List Val)
  | .list xs => .ok xs
  | .tuple xs => .ok xs
  | _ => .error .type

def pure1 (params : List String) (body : List Val → Except ErrKind Val) : UFn :=
  fun s args kwargs =>
    match bind params args kwargs with
    | .ok vs => (body vs, s)
    | .error k => (.error k, s)

def NamedFn.toUFn : NamedFn → UFn
  | .add1 => pure1 ["x"] fun vs => intOp (fun i => .int (i + 1)) (vs.headD .none)
  | .pair => pure1 ["x"] fun vs => match asInt (vs.headD .none) with
      | some i => .ok (.tuple [vs.headD .none, .int (i + 1)])
      | none => .error .type
  | .swap => pure1 ["x", "y"] fun vs => .ok (.tuple [vs.getD 1 .none, vs.getD 0 .none])
  | .sum2 => pure1 ["x", "y"] fun vs => match asInt (vs.getD 0 .none), asInt (vs.getD 1 .none) with
      | some a, some b => .ok (.int (a + b))
      | _, _ => .error .type
  | .isEven => pure1 ["x"] fun vs => intOp (fun i => .bool (i % 2 == 0)) (vs.headD .none)
  | .neg => pure1 ["x"] fun vs => intOp (fun i => .int (-i)) (vs.headD .none)
  | .ident => pure1 ["x"] fun vs => .ok (vs.headD .none)
  | .mkDict => pure1 ["x"] fun vs => match asInt (vs.headD .none) with
      | some i => .ok (.dict [("u", vs.headD .none), ("v", .int (-i))])
      | none => .error .type
  | .triple => pure1 ["x"] fun vs => match asInt (vs.headD .none) with
      | some i => .ok (.tuple [vs.headD .none, .int (i + 1), .int (i + 2)])
      | none => .error .type
  | .wrap1 => pure1 ["x"] fun vs => .ok (.tuple [vs.headD .none])
  | .empty => pure1 ["x"] fun _ => .ok (.tuple [])
  | .first => pure1 ["x"] fun vs => match vs.headD .none with
      | .list (x :: _) => .ok x
      | .tuple (x :: _) => .ok x
      | .list [] => .error .index
      | .tuple [] => .error .index
      | .dict _ => .error .key
      | .str s => if s.isEmpty then .error .index else .ok (.str (String.ofList (s.toList.take 1)))
      | _ => .error .type
  | .const c => fun s _ _ => (.ok c, s)                       -- `def const(*args, **kwargs)`
  | .tup => fun s args kwargs => (if kwargs.isEmpty then .ok (.tuple args) else .error .type, s)
  | .counter => fun s _ _ => (.ok (.int (s + 1)), s + 1)      -- stateful: the number of calls so far
  | .gt c => pure1 ["x"] fun vs => intOp (fun i => .bool (i > c)) (vs.headD .none)
  | .failOn st kind => pure1 ["x"] fun vs => if inSet st (vs.headD .none) then .error kind else .ok (vs.headD .none)
  | .vAdd1 => pure1 ["x"] fun vs => colMap (intOp fun i => .int (i + 1)) (vs.headD .none)
  | .vPair => pure1 ["x"] fun vs => do
      let a ← colMap (fun v => .ok v) (vs.headD .none)
      let b ← colMap (intOp fun i => .int (i + 1)) (vs.headD .none)
      .ok (.tuple [a, b])
  | .vFailOn st kind => pure1 ["x"] fun vs => do
      let rows ← colRows (vs.headD .none)
      if rows.any (inSet st) then .error kind else .ok (.list rows)
  | .vSum2 => pure1 ["x", "y"] fun vs => do
      let a ← colRows (vs.getD 0 .none)
      let b ← colRows (vs.getD 1 .none)
      -- `[p + q for p, q in zip(x, y, strict=True)]`
      if a.length != b.length then .error .value
      else
        let sums ← (a.zip b).mapM fun (p, q) =>
          match asInt p, asInt q with
          | some i, some j => Except.ok (Val.int (i + j))
          | _, _ => Except.error ErrKind.type
        .ok (.list sums)

end MlModel.Pipe.Lib
