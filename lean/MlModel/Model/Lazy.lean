import MlModel.Model.Basic
import MlModel.Model.Lru
/-!
# Model of `chainables/lazy_fns.py`: traced expressions and `maybe_make`

* `Val`   – the Python values the callable library works on (ints, strings, `None`, tuples, small
            frozen records, named callables, and *handles* = `LazyObject`s created with
            `cache_result=True`, which carry only an id; their value lives in the object cache).
* `Expr`  – what tracing builds: a raw constant, `trace(v, lazy_result=..)` (a `LazyObject` holding
            its value), and `F(*args, **kwargs, cache_result_=.., lazy_result_=..)` (a `LazyFn`).
            `x.name` and `x[key]` are the calls `LazyFn.new(getattr, args=(x, name))` /
            `LazyFn.new(operator.getitem, args=(x, key))` the code builds (lazy_fns.py:392-398).
* `eval`  – `_maybe_make` (lazy_fns.py:191-196) with `LazyObject.result_` (355-360) and
            `LazyFn.result_` (469-483) under the `_maybe_lru_cache` wrapper (48-90), as a state
            transformer over: the call log / stateful counter / allocation counter (`World`), the
            two bounded caches and the id counter.
* `eager` – the reference: plain recursive evaluation, no tracing, no caches, flags ignored.
* `dumps`/`loads` – pickling as a structural copy (a handle travels as its id only).

Object identity (`is`) of results is modelled by a reference number attached to every result:
`pair`/`mkrec`/a new handle allocate a fresh one, `ident` and cache hits pass the stored one on,
`0` = identity not tracked.
-/
namespace MlModel.Lazy

/-- Error kinds of this model: Python exceptions, the dedicated `LazyObjectMissingError`
(lazy_fns.py:44), and `outOfModel` for the one situation the model refuses to follow
(a handle whose stored value is again a handle, used as a function or as getattr/getitem target). -/
inductive Err where
  | py (k : ErrKind)
  | missing
  | outOfModel
  deriving DecidableEq, Repr, Inhabited

def Err.name : Err → String
  | .py k => k.name
  | .missing => "LazyObjectMissingError"
  | .outOfModel => "OutOfModel"

inductive Val where
  | int (n : Int)
  | str (s : String)
  | none
  | tup (xs : List Val)
  | record (fs : List (String × Val))
  | fn (name : String)
  | handle (id : Nat)
  deriving Repr, Inhabited

mutual
def Val.beq : Val → Val → Bool
  | .int a, .int b => a == b
  | .str a, .str b => a == b
  | .none, .none => true
  | .tup a, .tup b => Val.beqL a b
  | .record a, .record b => Val.beqF a b
  | .fn a, .fn b => a == b
  | .handle a, .handle b => a == b
  | _, _ => false
def Val.beqL : List Val → List Val → Bool
  | [], [] => true
  | a :: as, b :: bs => Val.beq a b && Val.beqL as bs
  | _, _ => false
def Val.beqF : List (String × Val) → List (String × Val) → Bool
  | [], [] => true
  | (k, a) :: as, (l, b) :: bs => k == l && Val.beq a b && Val.beqF as bs
  | _, _ => false
end

mutual
theorem Val.beq_iff : ∀ a b : Val, Val.beq a b = true ↔ a = b
  | .int a, b => by cases b <;> simp [Val.beq]
  | .str a, b => by cases b <;> simp [Val.beq]
  | .none, b => by cases b <;> simp [Val.beq]
  | .fn a, b => by cases b <;> simp [Val.beq]
  | .handle a, b => by cases b <;> simp [Val.beq]
  | .tup a, b => by cases b <;> simp [Val.beq, Val.beqL_iff a]
  | .record a, b => by cases b <;> simp [Val.beq, Val.beqF_iff a]
theorem Val.beqL_iff : ∀ a b : List Val, Val.beqL a b = true ↔ a = b
  | [], b => by cases b <;> simp [Val.beqL]
  | a :: as, b => by cases b <;> simp [Val.beqL, Val.beq_iff a, Val.beqL_iff as]
theorem Val.beqF_iff : ∀ a b : List (String × Val), Val.beqF a b = true ↔ a = b
  | [], b => by cases b <;> simp [Val.beqF]
  | (k, a) :: as, b => by
    cases b with
    | nil => simp [Val.beqF]
    | cons hd tl => obtain ⟨l, b⟩ := hd; simp [Val.beqF, Val.beq_iff a, Val.beqF_iff as]
end

instance : DecidableEq Val := fun a b =>
  if h : Val.beq a b = true then isTrue ((Val.beq_iff a b).mp h)
  else isFalse (fun e => h ((Val.beq_iff a b).mpr e))

/-- Traced expressions. -/
inductive Expr where
  /-- a raw Python value in function / argument position (`_maybe_make` of a non-resolvable is the
  value itself; of a handle it is the dereference) -/
  | const (v : Val)
  /-- `trace(v, lazy_result=lazy)`: `LazyObject(value=v, _lazy_result=lazy)` -/
  | traced (v : Val) (lazy : Bool)
  /-- `F(*args, **kw, cache_result_=cache, lazy_result_=lazy)`: a `LazyFn` -/
  | call (f : Expr) (args : List Expr) (kw : List (String × Expr)) (cache lazy : Bool)
  deriving Repr, Inhabited

/-- `x.name` (lazy_fns.py:392-395) -/
def Expr.getattr (o : Expr) (name : String) : Expr :=
  .call (.const (.fn "getattr")) [o, .const (.str name)] [] false false

/-- `x[key]` (lazy_fns.py:397-398) -/
def Expr.getitem (o : Expr) (key : Val) : Expr :=
  .call (.const (.fn "getitem")) [o, .const key] [] false false

mutual
def Expr.beq : Expr → Expr → Bool
  | .const a, .const b => a == b
  | .traced a l, .traced b m => a == b && l == m
  | .call f as ks c l, .call g bs js d m =>
    Expr.beq f g && Expr.beqL as bs && Expr.beqK ks js && c == d && l == m
  | _, _ => false
def Expr.beqL : List Expr → List Expr → Bool
  | [], [] => true
  | a :: as, b :: bs => Expr.beq a b && Expr.beqL as bs
  | _, _ => false
def Expr.beqK : List (String × Expr) → List (String × Expr) → Bool
  | [], [] => true
  | (k, a) :: as, (l, b) :: bs => k == l && Expr.beq a b && Expr.beqK as bs
  | _, _ => false
end

mutual
theorem Expr.beq_iff : ∀ a b : Expr, Expr.beq a b = true ↔ a = b
  | .const a, b => by cases b <;> simp [Expr.beq]
  | .traced a l, b => by cases b <;> simp [Expr.beq]
  | .call f as ks c l, b => by
    cases b <;> simp [Expr.beq, Expr.beq_iff f, Expr.beqL_iff as, Expr.beqK_iff ks, and_assoc]
theorem Expr.beqL_iff : ∀ a b : List Expr, Expr.beqL a b = true ↔ a = b
  | [], b => by cases b <;> simp [Expr.beqL]
  | a :: as, b => by cases b <;> simp [Expr.beqL, Expr.beq_iff a, Expr.beqL_iff as]
theorem Expr.beqK_iff : ∀ a b : List (String × Expr), Expr.beqK a b = true ↔ a = b
  | [], b => by cases b <;> simp [Expr.beqK]
  | (k, a) :: as, b => by
    cases b with
    | nil => simp [Expr.beqK]
    | cons hd tl => obtain ⟨l, b⟩ := hd; simp [Expr.beqK, Expr.beq_iff a, Expr.beqK_iff as]
end

instance : DecidableEq Expr := fun a b =>
  if h : Expr.beq a b = true then isTrue ((Expr.beq_iff a b).mp h)
  else isFalse (fun e => h ((Expr.beq_iff a b).mpr e))

/-! ## Cache keys

`LazyFn.__hash__/__eq__` (lazy_fns.py:453-467) compare `(value, args, kwargs)` and ignore the
flags; the nested `LazyObject.__eq__` (344-349) compares the traced values of two non-cached
objects and the ids of cached ones.  All leaf values of the modelled library are hashable, so the
key of an expression is the expression with every flag erased (handles stay, compared by id).
A raw constant and a traced constant are different keys (the repaired `__eq__`, finding C17-F1). -/
mutual
def Expr.key : Expr → Expr
  | .const v => .const v
  | .traced v _ => .traced v false
  | .call f as ks _ _ => .call f.key (Expr.keyL as) (Expr.keyK ks) false false
def Expr.keyL : List Expr → List Expr
  | [] => []
  | a :: as => a.key :: Expr.keyL as
def Expr.keyK : List (String × Expr) → List (String × Expr)
  | [] => []
  | (k, a) :: as => (k, a.key) :: Expr.keyK as
end

/-! ## The world the callables act on -/

structure World where
  /-- number of `counter()` calls so far: the k-th call returns k -/
  counter : Nat := 0
  /-- names of the library callables entered, in call order -/
  log : List String := []
  /-- next fresh object reference (identity) -/
  alloc : Nat := 1
  deriving Repr, DecidableEq

/-- A value together with the identity of the object that carries it (`0` = not tracked). -/
abbrev RVal := Val × Nat

/-! ## The callable library (mirrored by harness/lib_c17.py) -/

def pyErr {α : Type} (k : ErrKind) : Except Err α := .error (.py k)

/-- Parameters not bound positionally: keyword, else default, else `TypeError`. -/
def bindRest (kw : List (String × Val)) : List (String × Option Val) → Except Err (List Val)
  | [] => .ok []
  | (name, dflt) :: ps =>
    match bindRest kw ps with
    | .error e => .error e
    | .ok rest =>
      match kw.find? (fun q => q.1 == name), dflt with
      | some q, _ => .ok (q.2 :: rest)
      | none, some d => .ok (d :: rest)
      | none, none => pyErr .type

/-- Python argument binding for `def f(p1, p2=default, ...)`: every failure is a `TypeError`. -/
def bindArgs (params : List (String × Option Val)) (args : List Val) (kw : List (String × Val)) :
    Except Err (List Val) :=
  if args.length > params.length then pyErr .type
  else if kw.any (fun q => !(params.any (fun p => p.1 == q.1))) then pyErr .type   -- unexpected keyword
  else if kw.any (fun q => (params.take args.length).any (fun p => p.1 == q.1)) then
    pyErr .type                                                                 -- multiple values
  else
    match bindRest kw (params.drop args.length) with
    | .error e => .error e
    | .ok rest => .ok (args ++ rest)

/-- Python indexing `xs[i]` with negative indices. -/
def pyIndex {α : Type} (xs : List α) (i : Int) : Option α :=
  if i ≥ 0 then xs[i.toNat]? else if -i ≤ xs.length then xs[(xs.length - (-i).toNat)]? else none

/-- Names of the library callables (anything else is not callable by name). -/
def libNames : List String :=
  ["add", "mul", "pair", "len", "ident", "mkrec", "counter", "failneg", "getattr", "getitem"]

/-- `callable(v)`: named callables, and every `LazyObject` (it defines `__call__`). -/
def Val.callable : Val → Bool
  | .fn _ => true
  | .handle _ => true
  | _ => false

/-- Value-level semantics of the named callables: the result, and whether the body of a
Python-level function was entered (argument binding succeeded) — the raw builtins `getattr` and
`operator.getitem` are never logged.  `counter` is the number of `counter()` calls so far. -/
def libVal (name : String) (vs : List Val) (kvs : List (String × Val)) (counter : Nat) :
    Except Err Val × Bool :=
  match name with
  | "add" =>
    match bindArgs [("a", none), ("b", none)] vs kvs with
    | .error e => (.error e, false)
    | .ok [.int a, .int b] => (.ok (.int (a + b)), true)
    | .ok _ => (pyErr .type, true)
  | "mul" =>
    match bindArgs [("a", none), ("b", some (.int 2))] vs kvs with
    | .error e => (.error e, false)
    | .ok [.int a, .int b] => (.ok (.int (a * b)), true)
    | .ok _ => (pyErr .type, true)
  | "pair" =>
    match bindArgs [("a", none), ("b", none)] vs kvs with
    | .error e => (.error e, false)
    | .ok [a, b] => (.ok (.tup [a, b]), true)
    | .ok _ => (pyErr .type, true)
  | "len" =>
    match bindArgs [("x", none)] vs kvs with
    | .error e => (.error e, false)
    | .ok [.tup xs] => (.ok (.int xs.length), true)
    | .ok [.str s] => (.ok (.int s.length), true)
    | .ok _ => (pyErr .type, true)
  | "ident" =>
    match bindArgs [("x", none)] vs kvs with
    | .error e => (.error e, false)
    | .ok [x] => (.ok x, true)
    | .ok _ => (pyErr .type, true)
  | "mkrec" =>
    if !vs.isEmpty then (pyErr .type, false) else (.ok (.record kvs), true)
  | "counter" =>
    match bindArgs [("x", some (.int 0))] vs kvs with
    | .error e => (.error e, false)
    | .ok _ => (.ok (.int (counter + 1)), true)
  | "failneg" =>
    match bindArgs [("x", none)] vs kvs with
    | .error e => (.error e, false)
    | .ok [.int x] => if x < 0 then (pyErr .value, true) else (.ok (.int x), true)
    | .ok _ => (pyErr .type, true)
  | "getattr" =>
    -- builtin: no keyword arguments; the harness only builds the 2-argument form
    if !kvs.isEmpty then (pyErr .type, false) else
    match vs with
    | [o, .str n] =>
      match o with
      | .record fs =>
        match fs.find? (·.1 == n) with
        | some (_, v) => (.ok v, false)
        | none => (pyErr .attr, false)
      | .handle _ => (.error .outOfModel, false)     -- handled by `applyMake` before reaching here
      | _ => (pyErr .attr, false)
    | _ => (pyErr .type, false)
  | "getitem" =>
    if !kvs.isEmpty then (pyErr .type, false) else
    match vs with
    | [o, k] =>
      match o, k with
      | .tup xs, .int i =>
        match pyIndex xs i with
        | some v => (.ok v, false)
        | none => (pyErr .index, false)
      | .tup _, _ => (pyErr .type, false)
      | .str s, .int i =>
        match pyIndex s.toList i with
        | some c => (.ok (.str (String.singleton c)), false)
        | none => (pyErr .index, false)
      | .str _, _ => (pyErr .type, false)
      | .record fs, .str n =>
        match fs.find? (·.1 == n) with
        | some (_, v) => (.ok v, false)
        | none => (pyErr .key, false)
      | .record _, _ => (pyErr .key, false)
      | .handle _, _ => (.error .outOfModel, false)  -- handled by `applyMake`
      | _, _ => (pyErr .type, false)
    | _ => (pyErr .type, false)
  | _ => (pyErr .type, false)

/-- Identity of the object `ident` returns: the very object passed in (positionally or by keyword). -/
def identRef (args : List RVal) (kw : List (String × RVal)) : Nat :=
  match args, kw with
  | [a], _ => a.2
  | _, [(_, a)] => a.2
  | _, _ => 0

/-- Apply a named callable to already evaluated arguments: `libVal` on the values, plus the
effects on the world — the call log, the stateful counter, and the identity of the result
(`pair`/`mkrec` allocate a new object, `ident` returns its argument, otherwise not tracked). -/
def applyLib (name : String) (args : List RVal) (kw : List (String × RVal)) (w : World) :
    Except Err RVal × World :=
  let r := libVal name (args.map (·.1)) (kw.map (fun p => (p.1, p.2.1))) w.counter
  let w1 : World := if r.2 then { w with log := w.log ++ [name] } else w
  match r.1 with
  | .error e => (.error e, w1)
  | .ok v =>
    if name == "pair" || name == "mkrec" then
      (.ok (v, w.alloc), { w1 with alloc := w.alloc + 1 })
    else if name == "counter" then
      (.ok (v, 0), { w1 with counter := w.counter + 1 })
    else if name == "ident" then (.ok (v, identRef args kw), w1)
    else (.ok (v, 0), w1)

/-! ## Evaluator state and monad -/

structure St where
  w : World := {}
  /-- `LazyFn.result_`'s cache (`@_maybe_lru_cache(maxsize=128)`), keyed by `Expr.key` -/
  fnc : Lru.Cache Expr RVal
  /-- `LazyObject.result_`'s cache (`_LAZY_OBJECT_CACHE_SIZE = 1024`), keyed by handle id -/
  obj : Lru.Cache Nat RVal
  /-- next handle id (`_increment_id`) -/
  nextId : Nat := 0
  deriving Repr

def St.init (fnMax objMax : Nat) : St := { fnc := Lru.empty fnMax, obj := Lru.empty objMax }

/-- Exceptions keep the state reached so far (calls made, cache order, miss counters). -/
def M (α : Type) := St → Except Err α × St

instance : Monad M where
  pure a := fun s => (.ok a, s)
  bind m f := fun s => match m s with
    | (.ok a, s') => f a s'
    | (.error e, s') => (.error e, s')

def M.throw {α : Type} (e : Err) : M α := fun s => (.error e, s)

/-- `lazy_obj_cache[x]` for a cached `LazyObject` (lazy_fns.py:64-81): a hit returns the stored
object, a miss on a non-`LazyFn` raises `LazyObjectMissingError`. -/
def objGet (id : Nat) : M RVal := fun s =>
  match s.obj.getitem id with
  | (some r, c) => (.ok r, { s with obj := c })
  | (none, c) => (.error .missing, { s with obj := c })

/-- `_maybe_make` of a run-time value (lazy_fns.py:191-196): a handle is dereferenced, anything
else is returned as it is. -/
def makeVal (r : RVal) : M RVal :=
  match r.1 with
  | .handle id => objGet id
  | _ => pure r

/-- `LazyObject.new(result)` (lazy_fns.py:309-313): a fresh cached object, value inserted directly. -/
def newHandle (r : RVal) : M RVal := fun s =>
  let id := s.nextId
  (.ok (.handle id, s.w.alloc),
   { s with nextId := id + 1, obj := s.obj.setitem id r, w := { s.w with alloc := s.w.alloc + 1 } })

def liftLib (name : String) (args : List RVal) (kw : List (String × RVal)) : M RVal := fun s =>
  let (r, w') := applyLib name args kw s.w
  (r, { s with w := w' })

def makeVals : List RVal → M (List RVal)
  | [] => pure []
  | r :: rs => do let a ← makeVal r; let as ← makeVals rs; pure (a :: as)

def makeKws : List (String × RVal) → M (List (String × RVal))
  | [] => pure []
  | (k, r) :: rs => do let a ← makeVal r; let as ← makeKws rs; pure ((k, a) :: as)

/-- is the first positional argument a handle? -/
def headIsHandle : List RVal → Bool
  | (.handle _, _) :: _ => true
  | _ => false

/-- `_maybe_make(fn(*args, **kwargs))` for an already evaluated `fn` (lazy_fns.py:480).

* a named callable: the library function, its result made again;
* a handle `H`: `LazyObject.__call__` only records `L = LazyFn.new(H, args, kwargs)`; making `L`
  dereferences `H` (which must hold a callable) and every handle among the arguments, calls, and
  makes that result;
* builtin `getattr`/`getitem` on a handle return `L = LazyFn.new(getattr, (H, name))` via
  `LazyObject.__getattr__/__getitem__`; making `L` dereferences `H` (and a handle key), applies the
  builtin and makes that result. -/
def applyMake (f : RVal) (args : List RVal) (kw : List (String × RVal)) : M RVal :=
  match f.1 with
  | .fn name =>
    if (name == "getattr" || name == "getitem") && headIsHandle args && kw.isEmpty && args.length == 2 then do
      let args' ← makeVals args
      if headIsHandle args' then M.throw .outOfModel else do
        let r ← liftLib name args' []
        makeVal r
    else do let r ← liftLib name args kw; makeVal r
  | .handle id => do
    let v ← objGet id
    match v.1 with
    | .fn name => do
      let args' ← makeVals args
      let kw' ← makeKws kw
      if (name == "getattr" || name == "getitem") && headIsHandle args' then M.throw .outOfModel else do
        let r ← liftLib name args' kw'
        makeVal r
    | .handle _ => M.throw .outOfModel
    | _ => M.throw (.py .type)                  -- 'fn is not callable'
  | _ => M.throw (.py .type)

def fncGet (k : Expr) : M (Option RVal) := fun s =>
  let (r, c) := s.fnc.getitem k
  (.ok r, { s with fnc := c })

def fncSet (k : Expr) (r : RVal) : M Unit := fun s =>
  (.ok (), { s with fnc := s.fnc.setitem k r })

mutual
/-- `_maybe_make(build e)`.  For a call, `body` is `LazyFn.result_` (469-483) and the surrounding
`if cache` is `_maybe_lru_cache.wrapped_fn` (63-83). -/
def eval : Expr → M RVal
  | .const v => makeVal (v, 0)
  | .traced v lazy =>
    -- LazyObject.result_ (355-360), `cache_result` is False for a traced value
    if lazy then newHandle (v, 0) else pure (v, 0)
  | .call f args kw cache lazy =>
    let body : M RVal :=
      -- `if self.value is None: result = None` (472-473): a `LazyFn` without a function
      if f = .const .none then (if lazy then newHandle (.none, 0) else pure (.none, 0)) else do
      let fv ← eval f                                          -- fn = _maybe_make(self.value)
      if !fv.1.callable then M.throw (.py .type) else do       -- 'fn is not callable'
      let as ← evalArgs args                                   -- tuple(_maybe_make(arg) ...)
      let ks ← evalKw kw                                       -- {k: _maybe_make(v) ...}
      let r ← applyMake fv as ks                               -- _maybe_make(fn(*args, **kwargs))
      if lazy then newHandle r else pure r
    if cache then do
      let k := (Expr.call f args kw cache lazy).key
      match ← fncGet k with
      | some r => pure r                                       -- cache hit: the stored object
      | none => do
        let r ← body
        fncSet k r
        pure r
    else body
def evalArgs : List Expr → M (List RVal)
  | [] => pure []
  | a :: as => do let v ← eval a; let vs ← evalArgs as; pure (v :: vs)
def evalKw : List (String × Expr) → M (List (String × RVal))
  | [] => pure []
  | (k, a) :: as => do let v ← eval a; let vs ← evalKw as; pure ((k, v) :: vs)
end

/-! ## Building an expression through the public API

`LazyObject.__call__` (371-390) refuses `cache_result_ ∧ lazy_result_` with a `ValueError` at
*trace* time; `LazyFn.new` on a raw callable (the route for a non-`LazyObject` in function
position) does not check. -/
def Expr.isLazyObj : Expr → Bool
  | .const (.handle _) => true
  | .const _ => false
  | _ => true

mutual
def Expr.badFlags : Expr → Bool
  | .const _ => false
  | .traced _ _ => false
  | .call f as ks c l => (c && l && f.isLazyObj) || f.badFlags || Expr.badFlagsL as || Expr.badFlagsK ks
def Expr.badFlagsL : List Expr → Bool
  | [] => false
  | a :: as => a.badFlags || Expr.badFlagsL as
def Expr.badFlagsK : List (String × Expr) → Bool
  | [] => false
  | (_, a) :: as => a.badFlags || Expr.badFlagsK as
end

/-! ## Pickling: a structural copy; a handle travels as its id only (its value stays in the
process-local object cache). -/
inductive WVal where
  | int (n : Int) | str (s : String) | none | tup (xs : List WVal)
  | record (fs : List (String × WVal)) | fn (name : String) | href (id : Nat)
  deriving Repr

inductive Wire where
  | const (v : WVal)
  | traced (v : WVal) (lazy : Bool)
  | call (f : Wire) (args : List Wire) (kw : List (String × Wire)) (cache lazy : Bool)
  deriving Repr

mutual
def Val.dumps : Val → WVal
  | .int n => .int n | .str s => .str s | .none => .none
  | .tup xs => .tup (Val.dumpsL xs) | .record fs => .record (Val.dumpsF fs)
  | .fn n => .fn n | .handle id => .href id
def Val.dumpsL : List Val → List WVal
  | [] => [] | a :: as => a.dumps :: Val.dumpsL as
def Val.dumpsF : List (String × Val) → List (String × WVal)
  | [] => [] | (k, a) :: as => (k, a.dumps) :: Val.dumpsF as
end

mutual
def WVal.loads : WVal → Val
  | .int n => .int n | .str s => .str s | .none => .none
  | .tup xs => .tup (WVal.loadsL xs) | .record fs => .record (WVal.loadsF fs)
  | .fn n => .fn n | .href id => .handle id
def WVal.loadsL : List WVal → List Val
  | [] => [] | a :: as => a.loads :: WVal.loadsL as
def WVal.loadsF : List (String × WVal) → List (String × Val)
  | [] => [] | (k, a) :: as => (k, a.loads) :: WVal.loadsF as
end

mutual
def Expr.dumps : Expr → Wire
  | .const v => .const v.dumps
  | .traced v l => .traced v.dumps l
  | .call f as ks c l => .call f.dumps (Expr.dumpsL as) (Expr.dumpsK ks) c l
def Expr.dumpsL : List Expr → List Wire
  | [] => [] | a :: as => a.dumps :: Expr.dumpsL as
def Expr.dumpsK : List (String × Expr) → List (String × Wire)
  | [] => [] | (k, a) :: as => (k, a.dumps) :: Expr.dumpsK as
end

mutual
def Wire.loads : Wire → Expr
  | .const v => .const v.loads
  | .traced v l => .traced v.loads l
  | .call f as ks c l => .call f.loads (Wire.loadsL as) (Wire.loadsK ks) c l
def Wire.loadsL : List Wire → List Expr
  | [] => [] | a :: as => a.loads :: Wire.loadsL as
def Wire.loadsK : List (String × Wire) → List (String × Expr)
  | [] => [] | (k, a) :: as => (k, a.loads) :: Wire.loadsK as
end

/-! ## Top-level operations -/

/-- `maybe_make(build e)`; building fails first when the flags are refused. -/
def maybeMake (e : Expr) : M RVal :=
  if e.badFlags then M.throw (.py .value) else eval e

/-- `maybe_make(pickler.dumps(build e))` (lazy_fns.py:199-202: bytes are unpickled first). -/
def maybeMakePickled (e : Expr) : M RVal :=
  if e.badFlags then M.throw (.py .value) else eval e.dumps.loads

/-- `clear_cache()` (486-488) -/
def clearCache : M Unit := fun s => (.ok (), { s with fnc := s.fnc.clear })

/-- `clear_object()` (501-503) -/
def clearObject : M Unit := fun s => (.ok (), { s with obj := s.obj.clear })

/-! ## The eager reference: ordinary evaluation of the same expression

No tracing, no caches, both flags ignored.  Defined on expressions without handles (a handle has
no meaning without the object cache); a handle met at run time is `outOfModel`. -/
mutual
def eager : Expr → World → Except Err RVal × World
  | .const v, w => (.ok (v, 0), w)
  | .traced v _, w => (.ok (v, 0), w)
  | .call f args kw _ _, w =>
    match eager f w with
    | (.error e, w1) => (.error e, w1)
    | (.ok fv, w1) =>
      match fv.1 with
      | .fn name =>
        match eagerArgs args w1 with
        | (.error e, w2) => (.error e, w2)
        | (.ok as, w2) =>
          match eagerKw kw w2 with
          | (.error e, w3) => (.error e, w3)
          | (.ok ks, w3) => applyLib name as ks w3
      | .handle _ => (.error .outOfModel, w1)
      | _ => (.error (.py .type), w1)
def eagerArgs : List Expr → World → Except Err (List RVal) × World
  | [], w => (.ok [], w)
  | a :: as, w =>
    match eager a w with
    | (.error e, w1) => (.error e, w1)
    | (.ok v, w1) =>
      match eagerArgs as w1 with
      | (.error e, w2) => (.error e, w2)
      | (.ok vs, w2) => (.ok (v :: vs), w2)
def eagerKw : List (String × Expr) → World → Except Err (List (String × RVal)) × World
  | [], w => (.ok [], w)
  | (k, a) :: as, w =>
    match eager a w with
    | (.error e, w1) => (.error e, w1)
    | (.ok v, w1) =>
      match eagerKw as w1 with
      | (.error e, w2) => (.error e, w2)
      | (.ok vs, w2) => (.ok ((k, v) :: vs), w2)
end

end MlModel.Lazy
