import MlModel.Model.Basic
/-!
# Worker ownership by pools (C20, part 2) — a labelled transition system, core Lean only

Mirrors `ml_metrics/_src/chainables/courier_worker.py` (after the `fix:` commits: owner-checked
`Worker.release(pool)`, `release_all` that calls it, `try/finally` in `WorkerPool.run`) and the
release paths of `orchestrate.as_completed` / `_async_run_single_stage`.

* A `Worker` is `(lock, pool, sl)`: `_lock.locked()`, `_worker_pool`, owner of the `RLock`
  `_states_lock` (the modelled paths never re-enter it).
* Any number of **threads** run **scripts** of pool-level operations (`Op`) for any number of pools.
  Each thread is inside at most one `Worker` method (`Call`, with a program point `MPc`), with a
  pool-level continuation `K` saying what the enclosing pool operation does with the returned value.
* **One step = one shared access**: acquiring / releasing `_states_lock`, `Lock.acquire(False)`,
  `Lock.release()`, one read of `_lock.locked()`, one read or write of `_worker_pool`.
  `worker.has_capacity and worker.is_alive` is NOT one step (round 5, exposed by the schedule replay
  of the real code): `has_capacity` (→ `pendings`) and `is_alive` each take the worker's
  `_states_lock` — the lock `acquire_by` / `release` / `call` use — so each is a critical section
  `cEnter; cExit` / `iEnter; iExit` that can block, and be blocked by, the ownership methods; the
  second one is skipped when the first returns `False`.  The *values* they return come from an
  oracle `u` (free to change at every step) consulted at `cExit` / `iExit`; `Model/OwnerEnv.lean`
  instantiates it with the registry / heartbeat / pending-call state (and adds the registry-lock
  micro-steps inside `is_alive`).  `Worker.call` (`kEnter; kExit`) takes the same lock.
  Thread-local code between two accesses is fused into the preceding step.
* `step? pw u c t` is deterministic once the thread `t` (and the oracle `u`) is chosen, so a schedule
  `List (Tid × oracle)` replays an interleaving exactly (`runSched`).

Composite operations are scripts of primitives ending in `Op.finalize p` (= the `finally:
release_all()`): `runScript`, `callAndWaitScript`, `asCompletedScript` below.  A raise or an early
`close()` of the generator truncates the body — the finaliser still runs.

Round 6 added the primitive operations the composite operations are made of between two of their own yield points
(`aliveWorkers` = the property `pool.workers`, `submitW` = `Worker.submit` up to its `call`, `acquireAllCall`, `isAliveW`,
`acquiredWorkers`); `Model/OwnerEnv.lean` runs `WorkerPool.run` / `call_and_wait` / `Worker.submit` as programs over them, and the
harness replays `orchestrate.as_completed` as the script of them its body was observed to perform.

Blocking acquisition (`acquire_by(blocking=True)`, no caller in the repo) is not modelled.
-/
namespace MlModel.Owner

abbrev Wid := Nat
abbrev Pid := Nat
abbrev Tid := Nat

structure Worker where
  lock : Bool := false          -- `self._lock.locked()`
  pool : Option Pid := none     -- `self._worker_pool`
  sl : Option Tid := none       -- holder of `self._states_lock`
  deriving DecidableEq, Repr

/-- Program points inside a `Worker` method (courier_worker.py:186–212). -/
inductive MPc where
  -- acquire_by(pool), 196–205
  | aEnter                -- `with self._states_lock:` (blocks while another thread is inside)
  | aRdPool               -- `self._worker_pool is not worker_pool`
  | aTry                  -- `self._lock.acquire(blocking=False)`
  | aWr                   -- `self._worker_pool = worker_pool`
  | aRd2                  -- `self._worker_pool is worker_pool`  (the return value)
  | aExit (r : Bool)      -- leave the `with`, return r
  -- release(pool), 207–217 (repaired); `checked = false` is the old unconditional release
  | rEnter
  | rRdLocked1            -- `not self._lock.locked()`          } is_available(pool),
  | rRdPool               -- `self._worker_pool is worker_pool`  } now inside the lock
  | rRdLocked2            -- `if self._lock.locked():`
  | rUnlock               -- `self._lock.release()`
  | rWr                   -- `self._worker_pool = None`
  | rExit
  -- is_available(pool), 186–188
  | vRdLocked | vRdPool
  -- is_locked(pool), 190–194
  | lRdLocked | lRdPool
  -- `worker.has_capacity` → `pendings` (courier_utils.py:642–646): `with self._states_lock: [...]`
  | cEnter | cExit
  -- `worker.is_alive` (courier_utils.py:632–640): `with self._states_lock:` fold, verdict, maybe ping
  | iEnter | iExit
  -- `worker.call(...)` (courier_utils.py:648–657): `with self._states_lock:` submit + remember the pending
  | kEnter | kExit
  deriving DecidableEq, Repr

/-- An activation of a `Worker` method by a thread acting for pool `p`. -/
structure Call where
  w : Wid
  p : Pid
  pc : MPc
  checked : Bool := true
  deriving DecidableEq, Repr

def upd {α : Type} (f : Nat → α) (a : Nat) (v : α) : Nat → α := fun x => if x = a then v else f x

@[simp] theorem upd_same {α} (f : Nat → α) (a v) : upd f a v a = v := by simp [upd]
@[simp] theorem upd_other {α} (f : Nat → α) {a b : Nat} (v) (h : b ≠ a) : upd f a v b = f b := by
  simp [upd, h]

/-- Result of one atomic step of a method: continue at a program point, or return a Boolean. -/
inductive Out where
  | goto (pc : MPc)
  | ret (b : Bool)
  deriving DecidableEq, Repr

/-- One atomic step of thread `t` inside `cl` (`none` = blocked on `_states_lock`). -/
def mstep (u : Wid → Bool) (W : Wid → Worker) (t : Tid) (cl : Call) : Option ((Wid → Worker) × Out) :=
  let x := W cl.w
  match cl.pc with
  | .aEnter => if x.sl = none then some (upd W cl.w { x with sl := some t }, .goto .aRdPool) else none
  | .aRdPool => some (W, .goto (if x.pool = some cl.p then .aRd2 else .aTry))
  | .aTry => if x.lock then some (W, .goto .aRd2)
             else some (upd W cl.w { x with lock := true }, .goto .aWr)
  | .aWr => some (upd W cl.w { x with pool := some cl.p }, .goto .aRd2)
  | .aRd2 => some (W, .goto (.aExit (x.pool == some cl.p)))
  | .aExit r => some (upd W cl.w { x with sl := none }, .ret r)
  | .rEnter => if x.sl = none then
      some (upd W cl.w { x with sl := some t }, .goto (if cl.checked then .rRdLocked1 else .rRdLocked2))
    else none
  | .rRdLocked1 => some (W, .goto (if x.lock then .rRdPool else .rRdLocked2))
  | .rRdPool => some (W, .goto (if x.pool = some cl.p then .rRdLocked2 else .rExit))
  | .rRdLocked2 => some (W, .goto (if x.lock then .rUnlock else .rWr))
  | .rUnlock => some (upd W cl.w { x with lock := false }, .goto .rWr)
  | .rWr => some (upd W cl.w { x with pool := none }, .goto .rExit)
  | .rExit => some (upd W cl.w { x with sl := none }, .ret true)
  | .vRdLocked => some (W, if x.lock then .goto .vRdPool else .ret true)
  | .vRdPool => some (W, .ret (x.pool == some cl.p))
  | .lRdLocked => some (W, if x.lock then .goto .lRdPool else .ret false)
  | .lRdPool => some (W, .ret (x.pool == some cl.p))
  | .cEnter => if x.sl = none then some (upd W cl.w { x with sl := some t }, .goto .cExit) else none
  | .cExit => some (upd W cl.w { x with sl := none }, .ret (u cl.w))
  | .iEnter => if x.sl = none then some (upd W cl.w { x with sl := some t }, .goto .iExit) else none
  | .iExit => some (upd W cl.w { x with sl := none }, .ret (u cl.w))
  | .kEnter => if x.sl = none then some (upd W cl.w { x with sl := some t }, .goto .kExit) else none
  | .kExit => some (upd W cl.w { x with sl := none }, .ret true)

/-- Pool-level operations (the alphabet of scripts). -/
inductive Op where
  | acquireAll (p : Pid) (ws : List Wid) (n : Nat)       -- `_acquire_all(ws, num_workers=n)`, non-blocking
  | releaseAll (p : Pid) (ws : List Wid)                 -- `release_all(ws)`  (`[]` means all pool workers)
  | nextIdle (p : Pid) (ws : List Wid) (acq : Bool)      -- `next_idle_worker(ws, maybe_acquire=acq)`
  | releaseOne (p : Pid) (w : Wid) (checked : Bool)      -- `w.release(pool)`; unchecked = old `w.release()`
  | releaseAllOrig (p : Pid) (ws : List Wid)             -- unchanged `release_all`: check outside the lock
  | finalize (p : Pid)                                   -- `finally: release_all()` ending a pool operation
  | idleWorkers (p : Pid)                                -- `idle_workers()` (what `WorkerPool.iterate` polls; acquires nothing)
  | callW (p : Pid) (w : Wid)                            -- `w.call(...)` by a thread acting for `p` (the body of `run` / `call_and_wait`)
  -- round 6: the pieces of the composite operations between two of their own yield points (clock reads, sleeps, waits)
  | aliveWorkers (p : Pid) (twice : Bool)                -- the property `pool.workers` = `[c for c in self._workers if c.is_alive]`; `twice`: evaluated twice in a row (error message of `wait_until_alive`, courier_worker.py:315–321)
  | submitW (p : Pid) (w : Wid) (stage : Nat)            -- `w.submit(task)` up to and including `call` (courier_utils.py:715–727): stage 0 from `wait_until_alive` (`is_alive`, evaluated once more when false: 603–611), 1 from the `is_alive` of its retry loop, ≥ 2 from `has_capacity`
  | acquireAllCall (p : Pid)                             -- `self._acquire_all()` then `[c.call(..) for c in self._workers]` (`call_and_wait`, 325–329)
  | isAliveW (p : Pid) (w : Wid)                         -- `task.is_alive` → `w.is_alive` by a thread acting for `p` (`as_completed`, orchestrate.py:517)
  | acquiredWorkers (p : Pid)                            -- the property `pool.acquired_workers` = `[w for w in self._workers if w.is_locked(self)]` (`as_completed`, 531)
  deriving DecidableEq, Repr

def Op.pool : Op → Pid
  | .acquireAll p _ _ | .releaseAll p _ | .nextIdle p _ _ | .releaseOne p _ _
  | .releaseAllOrig p _ | .finalize p | .idleWorkers p | .callW p _
  | .aliveWorkers p _ | .submitW p _ _ | .acquireAllCall p | .isAliveW p _ | .acquiredWorkers p => p

/-- Operations of the repaired code (every release is owner-checked under the lock). -/
def Op.repaired : Op → Bool
  | .releaseOne _ _ c => c
  | .releaseAllOrig _ _ => false
  | _ => true

/-- Continuation of the enclosing pool operation while a `Worker` method runs. -/
inductive K where
  | acqAllA (p : Pid) (w : Wid) (rest acc : List Wid) (n : Nat)   -- awaiting `w.is_available(self)`
  | acqAllB (p : Pid) (w : Wid) (rest acc : List Wid) (n : Nat)   -- awaiting `w.acquire_by(self)`
  | relAll (p : Pid) (rest : List Wid) (fin : Bool)               -- awaiting `w.release(self)`
  | origA (p : Pid) (w : Wid) (rest : List Wid)                   -- awaiting `w.is_available(self)` (old release_all)
  | origB (p : Pid) (rest : List Wid)                             -- awaiting `w.release()`
  | next1L (p : Pid) (w : Wid) (rest unacq : List Wid) (acq : Bool)  -- awaiting `w.is_locked(self)`
  | next1U (p : Pid) (w : Wid) (rest unacq : List Wid) (acq : Bool)  -- awaiting `w.is_alive` of a held worker
  | next2A (p : Pid) (w : Wid) (rest : List Wid)                  -- awaiting `w.acquire_by(self)`
  | next2U (p : Pid) (w : Wid) (rest : List Wid)                  -- awaiting `w.is_alive` after acquiring
  | relOne (p : Pid)                                              -- awaiting a method whose value is ignored (`release`, `call`)
  | next1C (p : Pid) (w : Wid) (rest unacq : List Wid) (acq : Bool)  -- awaiting `w.has_capacity` of a held worker
  | next2C (p : Pid) (w : Wid) (rest : List Wid)                  -- awaiting `w.has_capacity` after acquiring
  | idleA (p : Pid) (w : Wid) (rest acc : List Wid)               -- `idle_workers`: awaiting `w.is_available(self)`
  | idleC (p : Pid) (w : Wid) (rest acc : List Wid)               -- … `w.has_capacity`
  | idleU (p : Pid) (w : Wid) (rest acc : List Wid)               -- … `w.is_alive`
  | aliveU (p : Pid) (w : Wid) (rest acc : List Wid) (again : Option (List Wid))  -- `pool.workers`: awaiting `w.is_alive`
  | subI (p : Pid) (w : Wid) (second : Bool)                      -- `submit`: awaiting `w.is_alive` (first / repeated evaluation)
  | subC (p : Pid) (w : Wid)                                      -- `submit`: awaiting `w.has_capacity`
  | acqCA (p : Pid) (w : Wid) (rest : List Wid) (got : Bool) (all : List Wid)   -- `call_and_wait`: awaiting `w.is_available(self)`
  | acqCB (p : Pid) (w : Wid) (rest : List Wid) (got : Bool) (all : List Wid)   -- … `w.acquire_by(self)`
  | callAll (p : Pid) (rest : List Wid)                           -- … `w.call(..)`, then the remaining workers
  | acqW (p : Pid) (w : Wid) (rest acc : List Wid)                -- `acquired_workers`: awaiting `w.is_locked(self)`
  deriving DecidableEq, Repr

def K.pool : K → Pid
  | .acqAllA p .. | .acqAllB p .. | .relAll p .. | .origA p .. | .origB p .. | .next1L p ..
  | .next1U p .. | .next2A p .. | .next2U p .. | .relOne p
  | .next1C p .. | .next2C p .. | .idleA p .. | .idleC p .. | .idleU p ..
  | .aliveU p .. | .subI p .. | .subC p .. | .acqCA p .. | .acqCB p .. | .callAll p .. | .acqW p .. => p

/-- Value returned by a finished pool operation. -/
inductive Res where
  | unit
  | workers (ws : List Wid)
  | worker (w : Option Wid)
  | code (n : Nat)                  -- `submitW`: 1 = the worker is not alive, 2 = it has no capacity (`unit` = the call was submitted)
  deriving DecidableEq, Repr

/-- What the thread does next at pool level: enter a `Worker` method, or finish the operation
(`exited = some p` marks the end of a `finalize p`). -/
inductive Next where
  | call (cl : Call) (k : K)
  | finish (r : Res) (exited : Option Pid)
  deriving Repr

/-- `_acquire_all` loop head (courier_worker.py:271–278). -/
def acqAllLoop (p : Pid) : List Wid → List Wid → Nat → Next
  | [], acc, _ => .finish (.workers acc.reverse) none
  | w :: rest, acc, n => .call ⟨w, p, .vRdLocked, true⟩ (.acqAllA p w rest acc n)

/-- End of one `_acquire_all` iteration: `if len(result) == num_workers: break`. -/
def acqAllIter (p : Pid) (rest acc : List Wid) (n : Nat) : Next :=
  if acc.length = n then .finish (.workers acc.reverse) none else acqAllLoop p rest acc n

/-- `release_all` loop head (repaired: `worker.release(self)`). -/
def relAllLoop (p : Pid) (fin : Bool) : List Wid → Next
  | [] => .finish .unit (if fin then some p else none)
  | w :: rest => .call ⟨w, p, .rEnter, true⟩ (.relAll p rest fin)

/-- unchanged `release_all` loop head: `if worker.is_available(self): worker.release()`. -/
def origLoop (p : Pid) : List Wid → Next
  | [] => .finish .unit none
  | w :: rest => .call ⟨w, p, .vRdLocked, true⟩ (.origA p w rest)

/-- second loop of `next_idle_worker` (368–370). -/
def next2Loop (p : Pid) : List Wid → Next
  | [] => .finish (.worker none) none
  | w :: rest => .call ⟨w, p, .aEnter, true⟩ (.next2A p w rest)

/-- first loop of `next_idle_worker` (362–367). -/
def next1Loop (p : Pid) (acq : Bool) : List Wid → List Wid → Next
  | [], unacq => next2Loop p unacq
  | w :: rest, unacq => .call ⟨w, p, .lRdLocked, true⟩ (.next1L p w rest unacq acq)

/-- `idle_workers` loop head (courier_worker.py:341–347):
`[w for w in self._workers if w.is_available(self) and w.has_capacity and w.is_alive]`. -/
def idleLoop (p : Pid) : List Wid → List Wid → Next
  | [], acc => .finish (.workers acc.reverse) none
  | w :: rest, acc => .call ⟨w, p, .vRdLocked, true⟩ (.idleA p w rest acc)

/-- `pool.workers` loop head (courier_worker.py:372–375); `again = some ws`: a second evaluation follows at once. -/
def aliveLoop (p : Pid) : List Wid → List Wid → Option (List Wid) → Next
  | [], acc, none => .finish (.workers acc.reverse) none
  | [], _, some [] => .finish (.workers []) none
  | [], _, some (w :: rest) => .call ⟨w, p, .iEnter, true⟩ (.aliveU p w rest [] none)
  | w :: rest, acc, again => .call ⟨w, p, .iEnter, true⟩ (.aliveU p w rest acc again)

/-- `[c.call(..) for c in self._workers]` (call_and_wait). -/
def callLoop (p : Pid) : List Wid → Next
  | [] => .finish .unit none
  | w :: rest => .call ⟨w, p, .kEnter, true⟩ (.callAll p rest)

/-- `_acquire_all()` inside `call_and_wait` (`num_workers = 0`: the loop breaks after the first worker while nothing
has been acquired — `len(result) == num_workers`), followed by the calls. -/
def acqCLoop (p : Pid) (all : List Wid) : List Wid → Bool → Next
  | [], _ => callLoop p all
  | w :: rest, got => .call ⟨w, p, .vRdLocked, true⟩ (.acqCA p w rest got all)

def acqCIter (p : Pid) (all rest : List Wid) (got : Bool) : Next :=
  if got then acqCLoop p all rest got else callLoop p all

/-- `acquired_workers` loop head (courier_worker.py:262–264). -/
def acqWLoop (p : Pid) : List Wid → List Wid → Next
  | [], acc => .finish (.workers acc.reverse) none
  | w :: rest, acc => .call ⟨w, p, .lRdLocked, true⟩ (.acqW p w rest acc)

/-- Resume the pool operation with the value `b` returned by the `Worker` method. -/
def resume : K → Bool → Next
  | .acqAllA p w rest acc n, b =>
    if b then .call ⟨w, p, .aEnter, true⟩ (.acqAllB p w rest acc n) else acqAllIter p rest acc n
  | .acqAllB p w rest acc n, b => acqAllIter p rest (if b then w :: acc else acc) n
  | .relAll p rest fin, _ => relAllLoop p fin rest
  | .origA p w rest, b => if b then .call ⟨w, p, .rEnter, false⟩ (.origB p rest) else origLoop p rest
  | .origB p rest, _ => origLoop p rest
  | .next1L p w rest unacq acq, b =>
    if b then .call ⟨w, p, .cEnter, true⟩ (.next1C p w rest unacq acq)
    else next1Loop p acq rest (if acq then unacq ++ [w] else unacq)
  | .next1U p w rest unacq acq, b =>
    if b then .finish (.worker (some w)) none else next1Loop p acq rest unacq
  | .next2A p w rest, b => if b then .call ⟨w, p, .cEnter, true⟩ (.next2C p w rest) else next2Loop p rest
  | .next2U p w rest, b => if b then .finish (.worker (some w)) none else next2Loop p rest
  | .relOne _, _ => .finish .unit none
  | .next1C p w rest unacq acq, b =>
    if b then .call ⟨w, p, .iEnter, true⟩ (.next1U p w rest unacq acq) else next1Loop p acq rest unacq
  | .next2C p w rest, b => if b then .call ⟨w, p, .iEnter, true⟩ (.next2U p w rest) else next2Loop p rest
  | .idleA p w rest acc, b => if b then .call ⟨w, p, .cEnter, true⟩ (.idleC p w rest acc) else idleLoop p rest acc
  | .idleC p w rest acc, b => if b then .call ⟨w, p, .iEnter, true⟩ (.idleU p w rest acc) else idleLoop p rest acc
  | .idleU p w rest acc, b => idleLoop p rest (if b then w :: acc else acc)
  | .aliveU p w rest acc again, b => aliveLoop p rest (if b then w :: acc else acc) again
  | .subI p w second, b =>
    if b then .call ⟨w, p, .cEnter, true⟩ (.subC p w)
    else if second then .finish (.code 1) none else .call ⟨w, p, .iEnter, true⟩ (.subI p w true)
  | .subC p w, b => if b then .call ⟨w, p, .kEnter, true⟩ (.relOne p) else .finish (.code 2) none
  | .acqCA p w rest got all, b =>
    if b then .call ⟨w, p, .aEnter, true⟩ (.acqCB p w rest got all) else acqCIter p all rest got
  | .acqCB p _ rest got all, b => acqCIter p all rest (got || b)
  | .callAll p rest, _ => callLoop p rest
  | .acqW p w rest acc, b => acqWLoop p rest (if b then w :: acc else acc)

/-- Begin an operation (`pw p` = `pool._workers`). -/
def start (pw : Pid → List Wid) : Op → Next
  | .acquireAll p ws n => acqAllLoop p ws [] n
  | .releaseAll p ws => relAllLoop p false (if ws.isEmpty then pw p else ws)
  | .nextIdle p ws acq => next1Loop p acq ws []
  | .releaseOne p w c => .call ⟨w, p, .rEnter, c⟩ (.relOne p)
  | .releaseAllOrig p ws => origLoop p (if ws.isEmpty then pw p else ws)
  | .finalize p => relAllLoop p true (pw p)
  | .idleWorkers p => idleLoop p (pw p) []
  | .callW p w => .call ⟨w, p, .kEnter, true⟩ (.relOne p)
  | .aliveWorkers p twice => aliveLoop p (pw p) [] (if twice then some (pw p) else none)
  | .submitW p w stage =>
    match stage with
    | 0 => .call ⟨w, p, .iEnter, true⟩ (.subI p w false)
    | 1 => .call ⟨w, p, .iEnter, true⟩ (.subI p w true)
    | _ => .call ⟨w, p, .cEnter, true⟩ (.subC p w)
  | .acquireAllCall p => acqCLoop p (pw p) (pw p) false
  | .isAliveW p w => .call ⟨w, p, .iEnter, true⟩ (.relOne p)
  | .acquiredWorkers p => acqWLoop p (pw p) []

structure Thread where
  script : List Op := []
  cur : Option (Call × K) := none
  exited : Option Pid := none       -- just left a `finalize p`; cleared when the next operation starts
  results : List Res := []          -- values returned by the finished operations, oldest first
  deriving Repr

structure Cfg where
  W : Wid → Worker
  T : Tid → Thread

def Thread.apply (th : Thread) : Next → Thread
  | .call cl k => { th with cur := some (cl, k), exited := none }
  | .finish r ex => { th with cur := none, exited := ex, results := th.results ++ [r] }

/-- One step of thread `t` (`none`: blocked, or its script is finished). -/
def step? (pw : Pid → List Wid) (u : Wid → Bool) (c : Cfg) (t : Tid) : Option Cfg :=
  let th := c.T t
  match th.cur with
  | some (cl, k) =>
    match mstep u c.W t cl with
    | none => none
    | some (W', .goto pc) => some ⟨W', upd c.T t { th with cur := some ({ cl with pc := pc }, k) }⟩
    | some (W', .ret b) => some ⟨W', upd c.T t (th.apply (resume k b))⟩
  | none =>
    match th.script with
    | [] => none
    | op :: s => some ⟨c.W, upd c.T t ({ th with script := s, exited := none }.apply (start pw op))⟩

/-- The step relation: some thread moves, under some value of the capacity/liveness oracle. -/
def Step (pw : Pid → List Wid) (c c' : Cfg) : Prop := ∃ t u, step? pw u c t = some c'

/-- Reachability = reflexive-transitive closure of `Step`. -/
inductive Reach (pw : Pid → List Wid) (c0 : Cfg) : Cfg → Prop where
  | refl : Reach pw c0 c0
  | step {c c'} : Reach pw c0 c → Step pw c c' → Reach pw c0 c'

/-- Initial configurations: every worker free, every thread at the beginning of its script. -/
def Init (c : Cfg) : Prop :=
  (∀ w, c.W w = {}) ∧ ∀ t, (c.T t).cur = none ∧ (c.T t).exited = none

/-- Replay a schedule (entries that are not enabled are skipped). -/
def runSched (pw : Pid → List Wid) (c : Cfg) : List (Tid × (Wid → Bool)) → Cfg
  | [] => c
  | (t, u) :: s => runSched pw ((step? pw u c t).getD c) s

/-- Run thread `t` alone until its current operation has finished (sequential call), with fuel. -/
def runOp (pw : Pid → List Wid) (u : Wid → Bool) : Nat → Cfg → Tid → Cfg
  | 0, c, _ => c
  | fuel + 1, c, t =>
    match step? pw u c t with
    | none => c
    | some c' => if (c'.T t).cur.isNone then c' else runOp pw u fuel c' t

/-! ### Observation functions (the public API: `is_locked`, `is_available`, `acquired_workers`) -/

def isLocked (x : Worker) (p : Option Pid) : Bool :=
  x.lock && (match p with | none => true | some q => x.pool == some q)

def isAvailable (x : Worker) (p : Pid) : Bool := !x.lock || x.pool == some p

def acquiredWorkers (pw : Pid → List Wid) (W : Wid → Worker) (p : Pid) : List Wid :=
  (pw p).filter fun w => isLocked (W w) (some p)

/-! ### The pool operations as scripts (repaired code) -/

/-- `WorkerPool.run` (courier_worker.py:410–430): `tries` rounds of `next_idle_worker(maybe_acquire=True)`
(one per loop iteration until a worker is found, the task raises, or 180 s pass), then the `finally`. -/
def runScript (pw : Pid → List Wid) (p : Pid) (tries : Nat) : List Op :=
  List.replicate tries (.nextIdle p (pw p) true) ++ [.finalize p]

/-- `WorkerPool.call_and_wait` (323–337): `_acquire_all()`, the calls, `finally: release_all()`. -/
def callAndWaitScript (pw : Pid → List Wid) (p : Pid) : List Op :=
  [.acquireAll p (pw p) 0, .finalize p]

/-- Body actions of `orchestrate.as_completed` (470–548) that touch ownership. -/
inductive BodyAct where
  | next (ws : List Wid)          -- `worker_pool.next_idle_worker(workers, maybe_acquire=True)`
  | releaseUnused (ws : List Wid) -- `worker_pool.release_all(unused_workers)`
  deriving Repr

def BodyAct.op (p : Pid) : BodyAct → Op
  | .next ws => .nextIdle p ws true
  | .releaseUnused ws => .releaseAll p ws

/-- `as_completed`: any executed prefix of its loop body (exhausted, raised, or closed early), then
the `finally: worker_pool.release_all()`. -/
def asCompletedScript (p : Pid) (body : List BodyAct) : List Op :=
  body.map (BodyAct.op p) ++ [.finalize p]

/-- The unchanged `WorkerPool.run`: a task that raises skips `worker.release()` (F19). -/
def runScriptOrig (pw : Pid → List Wid) (p : Pid) (w : Option Wid) (raises : Bool) : List Op :=
  .nextIdle p (pw p) true :: (match w, raises with
    | some w, false => [.releaseOne p w false]
    | _, _ => [])

end MlModel.Owner
