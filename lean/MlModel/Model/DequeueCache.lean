import MlModel.Model.Basic
import MlModel.Model.Rebatch
/-!
# `iter_utils.DequeueIterator`: the consumer-local cache between `get_batch()` and `__next__`
(ml_metrics/_src/utils/iter_utils.py:851-875; `IteratorQueue.get_batch` 630-690)

`iter(queue)` is a `DequeueIterator`: the consumer side of every thread fan-out (`MultiplexIterator`,
`piter_*`) and of every stage-to-stage queue of `orchestrate.run_pipeline_interleaved`.

```
def __init__(self, q, *, num_steps=-1):
  self._cnt = 0;  self._run_until_exhausted = num_steps < 0;  self._cache = collections.deque()
def __next__(self):
  if not self._run_until_exhausted and self._cnt == self._num_steps:
    self.maybe_stop();  raise StopIteration()
  if not self._cache:
    self._cache.extend(self._iterator_queue.get_batch())
  self._cnt += 1
  return self._cache.popleft()
```

The queue LTS (`Model/Queue.lean`, program `batchLoop max block`) fuses this cache away: it appends what
a `get_batch` call returns to the consumer's `received`.  That is only right if the cache hands on
*everything* it was given, whatever the size of a refill — which is a property of the cache, stated and
proved here for every refill size.  `get_batch()` returns at most `bm` (`max_batch_size`, default
`_MAX_BATCH_SIZE = 4096`) elements, and when the producer is ahead of the consumer it returns that many.

The cache is a `collections.deque`; its `maxlen` is a parameter of the model (`0` = `maxlen=None`, what the
code has): `deque(maxlen=m).extend(xs)` silently discards elements from the LEFT once more than `m` are
held.  The theorems say for which `(maxlen, refill sizes)` nothing is lost: always for `maxlen = None`,
and for a bounded cache exactly when no refill is longer than `maxlen`.
-/
namespace MlModel.DequeueCache
open MlModel

variable {α : Type}

/-- `collections.deque(cache, maxlen=m).extend(xs)`: append on the right, then drop from the left what
exceeds `maxlen` (`maxlen = 0` stands for `maxlen=None`: unbounded). -/
def dequeExtend (maxlen : Nat) (cache xs : List α) : List α :=
  if maxlen = 0 then cache ++ xs else (cache ++ xs).drop ((cache ++ xs).length - maxlen)

/-- State of a `DequeueIterator` together with its environment: `pending` = the results of the
`get_batch()` calls still to come (in call order), after which `get_batch()` raises `StopIteration`
(the queue is exhausted). -/
structure St (α : Type) where
  cache : List α := []
  cnt : Nat := 0
  pending : List (List α) := []
  /-- `maybe_stop()` was called (the `num_steps` exit) -/
  stopped : Bool := false
  deriving Repr

/-- outcome of one `__next__` -/
inductive Res (α : Type) where
  | item (a : α)
  | stop                 -- StopIteration
  | indexError           -- `popleft()` on an empty deque (`get_batch()` returned `[]`)
  deriving Repr, DecidableEq

/-- one `__next__` (iter_utils.py:864-872); `numSteps = none` is `num_steps < 0` -/
def next (maxlen : Nat) (numSteps : Option Nat) (s : St α) : Res α × St α :=
  if numSteps = some s.cnt then (.stop, { s with stopped := true })      -- :865-867
  else
    match s.cache with
    | a :: rest => (.item a, { s with cache := rest, cnt := s.cnt + 1 })  -- :870-871 (cache not empty)
    | [] =>
      match s.pending with
      | [] => (.stop, s)                                                  -- `get_batch()` raises StopIteration
      | b :: bs =>
        match dequeExtend maxlen [] b with                                -- :868-869 refill
        | [] => (.indexError, { s with pending := bs, cnt := s.cnt + 1 })
        | a :: rest => (.item a, { s with cache := rest, pending := bs, cnt := s.cnt + 1 })

/-- `for x in it: out.append(x)`: call `__next__` until it raises (at most `fuel` elements) -/
def drainFuel (maxlen : Nat) (numSteps : Option Nat) : Nat → St α → List α × Res α × St α
  | 0, s => ([], .stop, s)
  | fuel + 1, s =>
    match next maxlen numSteps s with
    | (.item a, s') =>
      let r := drainFuel maxlen numSteps fuel s'
      (a :: r.1, r.2)
    | (r, s') => ([], r, s')

/-- enough fuel for every run: one per element that can still be delivered, one for the final raise -/
def St.fuel (s : St α) : Nat := s.cache.length + s.pending.flatten.length + 1

/-- everything a fresh `DequeueIterator(q, num_steps)` delivers when the successive `get_batch()` calls
return `batches` and then raise `StopIteration` -/
def delivered (maxlen : Nat) (numSteps : Option Nat) (batches : List (List α)) : List α :=
  let s : St α := { pending := batches }
  (drainFuel maxlen numSteps s.fuel s).1

/-- … and how the iteration ended -/
def ending (maxlen : Nat) (numSteps : Option Nat) (batches : List (List α)) : Res α × St α :=
  let s : St α := { pending := batches }
  (drainFuel maxlen numSteps s.fuel s).2

/-- What successive non-blocking `get_batch()` calls return on a queue that already holds `xs` and whose
producers have finished (the producer ran completely ahead of the consumer): slices of `bm` elements, the
last one shorter (iter_utils.py:653-661: `while len(result) < max_batch_size: result.append(get_nowait())`,
left through `queue.Empty` with a non-empty `result`). -/
def refills (bm : Nat) (xs : List α) : List (List α) := Rebatch.sliced bm xs

/-- one unbounded stage queue of the interleaved runner whose producer is ahead: enqueue `xs`, then
iterate `iter(queue)` to the end -/
def throughQueue (maxlen bm : Nat) (numSteps : Option Nat) (xs : List α) : List α :=
  delivered maxlen numSteps (refills bm xs)

/-- `k` such queues in a row (stage `i`'s output queue feeds stage `i+1`) -/
def throughQueues (maxlen bm : Nat) : Nat → List α → List α
  | 0, xs => xs
  | k + 1, xs => throughQueues maxlen bm k (throughQueue maxlen bm none xs)

end MlModel.DequeueCache
