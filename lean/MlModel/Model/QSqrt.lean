/-!
# ℚ(√r): exact evaluation of the two rates that contain one square root

`_matthews_correlation_coefficient` and `_prevalence_threshold` call `pos_sqrt` once, on a
rational radicand `r`.  The driver evaluates the *generated* (polymorphic) definitions in
`QSqrt r = {a + b√r}` so that nothing is approximated: the harness receives `(a, b, r)` and
finishes `a + b * sqrt(r)` in float64.  `bad` poisons a value whose square root left the field
(never happens for a single `sqrt` of `r·q²` or of a rational square).
Used only by the driver (validation of the translator / correspondence), not by any theorem.
-/
namespace MlModel

/-- exact square root of a rational that is a square -/
def ratSqrt? (q : Rat) : Option Rat :=
  if q < 0 then none else
    let n := q.num.toNat
    let d := q.den
    let sn := Nat.sqrt n
    let sd := Nat.sqrt d
    if sn * sn = n ∧ sd * sd = d then some ((sn : Rat) / (sd : Rat)) else none

structure QSqrt (r : Rat) where
  a : Rat
  b : Rat := 0
  bad : Bool := false
  deriving DecidableEq, Repr

namespace QSqrt
variable {r : Rat}

instance : NatCast (QSqrt r) := ⟨fun n => { a := (n : Rat) }⟩
instance : Add (QSqrt r) := ⟨fun x y => { a := x.a + y.a, b := x.b + y.b, bad := x.bad || y.bad }⟩
instance : Sub (QSqrt r) := ⟨fun x y => { a := x.a - y.a, b := x.b - y.b, bad := x.bad || y.bad }⟩
instance : Neg (QSqrt r) := ⟨fun x => { a := -x.a, b := -x.b, bad := x.bad }⟩
instance : Mul (QSqrt r) := ⟨fun x y =>
  { a := x.a * y.a + x.b * y.b * r, b := x.a * y.b + x.b * y.a, bad := x.bad || y.bad }⟩
/-- `x / y = x · conj y / (c² − d² r)` -/
instance : Div (QSqrt r) := ⟨fun x y =>
  let nrm := y.a * y.a - y.b * y.b * r
  if nrm = 0 then { a := 0, bad := x.bad || y.bad || !(y.a = 0 ∧ y.b = 0) } else
  { a := (x.a * y.a - x.b * y.b * r) / nrm, b := (x.b * y.a - x.a * y.b) / nrm,
    bad := x.bad || y.bad }⟩

/-- sign of `a + b√r` for `r ≥ 0` -/
def isPos (x : QSqrt r) : Bool :=
  if x.b = 0 then decide (0 < x.a)
  else if 0 ≤ x.a ∧ 0 < x.b then decide (0 < r ∨ 0 < x.a)
  else if x.a ≤ 0 ∧ x.b < 0 then false
  else if 0 < x.a then decide (x.b * x.b * r < x.a * x.a)     -- a > 0 > b
  else decide (x.a * x.a < x.b * x.b * r)                      -- b > 0 > a

instance : LT (QSqrt r) := ⟨fun x y => (y - x).isPos = true⟩
instance : DecidableLT (QSqrt r) := fun x y => inferInstanceAs (Decidable ((y - x).isPos = true))

/-- the symbolic square root: defined on rationals that are squares or `r` times a square -/
def sqrt (x : QSqrt r) : QSqrt r :=
  if x.b ≠ 0 ∨ x.bad then { x with bad := true } else
  match ratSqrt? x.a with
  | some s => { a := s }
  | none =>
    if r = 0 then { a := 0, bad := true } else
    match ratSqrt? (x.a / r) with
    | some s => { a := 0, b := s }
    | none => { a := 0, bad := true }

end QSqrt
end MlModel
