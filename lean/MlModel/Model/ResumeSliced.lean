import MlModel.Model.ResumeChain
import MlModel.Model.PipeAggCarry
/-!
# Checkpoint / resume of a runner whose aggregation is SLICED (property C10)

`Model/Resume.lean` carries one abstract aggregate state per runner.  Here the state of a runner is what
it is in `transform.py`: the finite map `MetricKey → state` of `Model/PipeAgg.lean`, whose key set GROWS
while iterating — `update_state` adds `MetricKey(output_key, SliceKey(..))` the first time a batch shows
the slice value (transform.py:328-331).

* `_RunnerIterator.__next__` (transform.py:185-199): `batch_output = super().__next__()` — the
  `MultiplexIterator` over the row-wise chain, i.e. `Resume.PipeIt` without an aggregate — then
  `self.agg_state = self._runner.update_state(self.agg_state, batch_output)` (`PipeAgg.updateState`);
* `state` (178-183): `(input states, deepcopy(agg_state))` — value semantics, the WHOLE map;
* `from_state` (166-176): a fresh iterator over the restored data source, constructed with
  `state=copy.deepcopy(state.agg_state)`; the constructor (130-133) keeps
  `{k: v for k, v in state.items() if k.metrics in self._runner.agg_fns}` (`PipeAgg.initFilter`).

An `update_state` that raises propagates out of `__next__`; the model keeps the error in `agg`
(sticky: the theorems speak about runs that raise nothing).
-/
namespace MlModel.Resume
open MlModel.PipeAgg (Batch State Pipeline initFilter startState updateState unslicedOnly)

variable {α X S Rv : Type}

/-- the element-delivery part of a runner iterator has no aggregate of its own -/
def noAgg : Agg.Mergeable Unit Unit Unit := ⟨(), fun _ => (), fun _ _ => (), id⟩

/-- One `TransformRunner` with a sliced aggregation: its row-wise operator chain (`fns`: each source element
yields the list `f a` of batches, one for `apply` / `assign` / `select`, none or one for `filter`) and its
`agg_fns` + `slicers` (`PipeAgg.Pipeline`). -/
structure SlicedDef (α X S Rv : Type) where
  f : α → List Batch
  P : Pipeline X S Rv

/-- the `MultiplexIterator` part (definitionally `Lemmas/Resume.lean: rowPipe D.f noAgg _`) -/
def SlicedDef.elems (D : SlicedDef α X S Rv) : PipeDef α Batch Unit Unit Unit Unit :=
  ⟨Trans.ofFn D.f, noAgg, fun _ => []⟩

/-- `_RunnerIterator`: the multiplex iterator it extends, and `self.agg_state` -/
structure SlicedIt (R : Recoverable α) (S : Type) where
  base : PipeIt R Batch Unit Unit
  agg : Except ErrKind (State S)

/-- `runner.iterate(src, state=st)` (transform.py:451-458; `None` = `create_state()`) -/
def SlicedIt.fresh (R : Recoverable α) (D : SlicedDef α X S Rv) (src : R.It) (st : Option (State S)) :
    SlicedIt R S :=
  ⟨PipeIt.fresh R D.elems src (), .ok (startState D.P st)⟩

/-- `self.agg_state = self._runner.update_state(self.agg_state, batch_output)` after a delivered batch;
nothing on `StopIteration` -/
def aggStep (P : Pipeline X S Rv) (agg : Except ErrKind (State S)) : Option Batch → Except ErrKind (State S)
  | none => agg
  | some b =>
    match agg with
    | .error e => .error e
    | .ok st => updateState P st b

/-- `_RunnerIterator.__next__` (transform.py:185-205) -/
def SlicedIt.next (R : Recoverable α) (D : SlicedDef α X S Rv) (it : SlicedIt R S) :
    Option Batch × SlicedIt R S :=
  let r := PipeIt.next R D.elems it.base
  (r.1, ⟨r.2, aggStep D.P it.agg r.1⟩)

/-- `it.agg_result` (transform.py:162-164): `self._runner.get_result(self.agg_state)` -/
def SlicedIt.aggResult {R : Recoverable α} (D : SlicedDef α X S Rv) (it : SlicedIt R S) :
    Except ErrKind (PipeAgg.Result Rv) :=
  match it.agg with
  | .error e => .error e
  | .ok st => PipeAgg.getResult D.P st

/-- `_RunnerIterator.state`: `_IteratorState(deepcopy(input states), deepcopy(self.agg_state))` -/
def SlicedIt.state (R : Recoverable α) (it : SlicedIt R S) : R.St × Except ErrKind (State S) :=
  (R.state it.base.src, it.agg)

/-- `_RunnerIterator.from_state` with the constructor's filter `keep` on the captured aggregation state -/
def SlicedIt.restoreWith (R : Recoverable α) (D : SlicedDef α X S Rv) (keep : State S → State S)
    (st : R.St × Except ErrKind (State S)) : Except ErrKind (SlicedIt R S) := do
  let src ← R.restore st.1
  return ⟨PipeIt.fresh R D.elems src (), st.2.map keep⟩

/-- `_RunnerIterator.from_state` (transform.py:166-176 + 130-133) -/
def SlicedIt.restore (R : Recoverable α) (D : SlicedDef α X S Rv) :
    R.St × Except ErrKind (State S) → Except ErrKind (SlicedIt R S) :=
  SlicedIt.restoreWith R D (initFilter D.P)

/-- A runner iterator with a sliced aggregation is a recoverable iterator (it can be the data source of
the next runner of a chain). -/
def slicedRec (R : Recoverable α) (D : SlicedDef α X S Rv) : Recoverable Batch where
  It := SlicedIt R S
  St := R.St × Except ErrKind (State S)
  next := SlicedIt.next R D
  state := SlicedIt.state R
  restore := SlicedIt.restore R D
  size := fun it => R.size it.base.src + it.base.pending.length

/-- A chain of runners with sliced aggregations, downstream first (`ChainedRunner.iterate`: runner `i+1`
iterates over runner `i`'s iterator). -/
def slicedChainRec (R : Recoverable Batch) : List (SlicedDef Batch X S Rv) → Recoverable Batch
  | [] => R
  | D :: Ds => slicedRec (slicedChainRec R Ds) D

def slicedChainFresh (R : Recoverable Batch) : (Ds : List (SlicedDef Batch X S Rv)) → R.It →
    (slicedChainRec R Ds).It
  | [], it => it
  | D :: Ds, it => SlicedIt.fresh (slicedChainRec R Ds) D (slicedChainFresh R Ds it) none

/-- the aggregation state maps of all stages, downstream first -/
def slicedAggsDown (R : Recoverable Batch) : (Ds : List (SlicedDef Batch X S Rv)) →
    (slicedChainRec R Ds).It → List (Except ErrKind (State S))
  | [], _ => []
  | _ :: Ds, it =>
    (show SlicedIt (slicedChainRec R Ds) S from it).agg ::
      slicedAggsDown R Ds (show SlicedIt (slicedChainRec R Ds) S from it).base.src

/-! ### the seeded regression `C10-m5-restore-drops-slice-states` (witness only)

`from_state` copies `{key: deepcopy(state.agg_state[key]) for key in self._runner.create_state()}`: only
the keys `create_state()` has — the un-sliced ones. -/

def slicedRecM5 (R : Recoverable α) (D : SlicedDef α X S Rv) : Recoverable Batch :=
  { slicedRec R D with restore := SlicedIt.restoreWith R D (unslicedOnly D.P) }

end MlModel.Resume
