import MlModel.Model.RemoteState
import MlModel.Model.RemoteOpts
/-!
# Several clients of one server, with the maintenance methods

A `CourierServer` binds five courier methods (`set_up`, courier_server.py:236-241): `maybe_make`, `heartbeat`,
`shutdown`, `clear_cache` (= `transform.clear_cache` = `lazy_fns.clear_cache()`: `LazyFn.result_.cache_clear()`,
lazy_fns.py:486-488) and `cache_info`.  Any number of `CourierClient`s — each with its own options
(`Model/RemoteOpts.lean`) — talk to the same server; a `RemoteObject` carries the id of the server-side object
and the configuration of the client it was obtained through, nothing else.  So the server state is shared by all
clients: the objects (`SSt.heap`), the id-addressed object table (`SSt.hnd` = `LazyObject.result_`'s cache),
the memoised results of `cache_result_` calls (`SSt.fnc` = `LazyFn.result_`'s cache), the generators.

* `MOp`   – one request: an evaluation on stateful objects (`RemoteState.Op`: mk / get / getF / iter / next), a
            generator with a chosen end (`lib_c14.gen`: elements, then a return value or a failure) held by handle,
            `iter(remote_generator)`, `next(remote_iterator)`, and the maintenance methods `clear_cache`,
            `cache_info`, `heartbeat`, `shutdown` (by a third party: the server flag only; by
            `CourierClient.shutdown()` (courier_utils.py:823-829): additionally the process-wide `WorkerRegistry`
            entry of the address becomes `None`, so every client of that address in the process finds the worker
            dead in `wait_until_alive`).
* `COp`   – a request tagged with the client that sends it.
* `mstep` – the server (+ the protocol around one evaluation, as in `Remote.getResult`: `Failed to connect` for a
            dead worker, the shutdown substitution for a failing evaluation).
* `mlocalStep` – the same history on local objects: ordinary Python, no server, no client, no cache.
-/
namespace MlModel.RemoteMulti
open MlModel MlModel.Lazy MlModel.RemoteState MlModel.RemoteOpts
open MlModel.Remote (Gen Fin Exc genNext connectExc shutdownExc)

inductive MOp where
  /-- an evaluation request on the stateful classes (`maybe_make`) -/
  | ev (o : Op)
  /-- `client.get_result(trace(lib_c14.gen)(items, stop, fail, lazy_result_=True))` -/
  | gen (items : List Val) (fin : Fin)
  /-- `iter(remote_generator)` (`RemoteObject.__iter__`): a new handle to the SAME generator -/
  | giter (h : Nat)
  /-- `next(remote_iterator)` (`RemoteIterator.__next__`) -/
  | gnext (h : Nat)
  /-- courier method `clear_cache` (`CourierClient.clear_cache()`) -/
  | clearCache
  /-- courier method `cache_info` -/
  | cacheInfo
  /-- courier method `heartbeat(sender, is_alive)` (`CourierClient.send_heartbeat`) -/
  | heartbeat (sender : String) (alive : Bool)
  /-- courier method `shutdown` called by a third party: `_request_shutdown` sets the flag, the transport stays -/
  | shutdownParty
  /-- `CourierClient.shutdown()`: the `shutdown` method + the registry entry of the address is set to `None` -/
  | shutdownClient
  deriving DecidableEq, Repr, Inhabited

structure COp where
  /-- index of the client that sends the request -/
  c : Nat
  op : MOp
  deriving DecidableEq, Repr, Inhabited

inductive MObs where
  | st (o : Obs)
  /-- a `RemoteObject` / `RemoteIterator` for a generator: the id and the `client_configs` it carries -/
  | handle (id : Nat) (cfg : ClientCfg)
  /-- `next(remote_iterator)` returned an element -/
  | elem (v : Val)
  /-- `next(remote_iterator)` raised (the end signal `StopIteration(*ret)`, or the generator's failure) -/
  | raised (x : Exc)
  | info (hits misses currsize : Nat)
  /-- the courier method answered `None` -/
  | none
  /-- an exception of the protocol (not of the evaluation): `Failed to connect`, the shutdown `TimeoutError` -/
  | exc (x : Exc)
  deriving DecidableEq, Repr, Inhabited

structure MSrv where
  st : SSt
  /-- the generator objects -/
  pool : List Gen := []
  /-- handle id ↦ index into `pool` (`iter(g) is g`: several ids, one generator) -/
  gh : List (Nat × Nat) := []
  /-- `CourierServer._shutdown_requested` -/
  shutdown : Bool := false
  /-- the `WorkerRegistry` entry of the server's address is `None` -/
  dead : Bool := false
  deriving Repr

def MSrv.init (fnMax : Nat) : MSrv := { st := SSt.init fnMax }

def setAt {α : Type} (xs : List α) (i : Nat) (a : α) : List α := xs.set i a

/-- what remains of an observation when the client-side wrapping (which client, which options) is forgotten -/
inductive LObs where
  | st (o : Obs)
  | var (id : Nat)
  | elem (v : Val)
  | raised (x : Exc)
  | none
  deriving DecidableEq, Repr, Inhabited

def nextObs : Except Exc Val → MObs
  | .ok v => .elem v
  | .error x => .raised x

def nextLObs : Except Exc Val → LObs
  | .ok v => .elem v
  | .error x => .raised x

/-- `_result_or_exception` (courier_utils.py:659-665): a `LazyObject` becomes a `RemoteObject` of THIS client -/
def wrapObs (cfg : ClientCfg) : Obs → MObs
  | .remote id => .handle id cfg
  | ob => .st ob

/-- the evaluation itself (`lazy_fns.maybe_make` on the server), before the protocol wrapping -/
def evalStep (cfg : ClientCfg) (op : MOp) (s : MSrv) : MObs × MSrv :=
  match op with
  | .ev o =>
    let r := remoteStep o s.st
    (wrapObs cfg r.1, { s with st := r.2 })
  | .gen items fin =>
    (.handle s.st.nextId cfg,
     { s with st := { s.st with nextId := s.st.nextId + 1 }, pool := s.pool ++ [⟨items, fin⟩],
              gh := s.gh ++ [(s.st.nextId, s.pool.length)] })
  | .giter h =>
    match s.gh.lookup h with
    | some i =>
      (.handle s.st.nextId cfg,
       { s with st := { s.st with nextId := s.st.nextId + 1 }, gh := s.gh ++ [(s.st.nextId, i)] })
    | Option.none => (.st (.err .missing), s)
  | .gnext h =>
    match s.gh.lookup h with
    | some i =>
      match s.pool[i]? with
      | some g => (nextObs (genNext g).1, { s with pool := setAt s.pool i (genNext g).2 })
      | Option.none => (.st (.err .outOfModel), s)
    | Option.none => (.st (.err .missing), s)
  | _ => (.none, s)

def MObs.isErr : MObs → Bool
  | .st (.err _) => true
  | .raised _ => true
  | _ => false

def MOp.isEval : MOp → Bool
  | .ev _ | .gen _ _ | .giter _ | .gnext _ => true
  | _ => false

/-- One request of client `c` (whose options are `cfgs c`) served by the server. -/
def mstep (cfgs : Nat → ClientCfg) (o : COp) (s : MSrv) : MObs × MSrv :=
  match o.op with
  | .clearCache => (.none, { s with st := clearCache s.st })            -- lazy_fns.clear_cache(): the LazyFn cache ONLY
  | .cacheInfo => (.info s.st.fnc.hits s.st.fnc.misses s.st.fnc.currsize, s)
  | .heartbeat _ _ => (.none, s)                                         -- `_last_heartbeat`, worker registry (C20)
  | .shutdownParty => (.none, { s with shutdown := true })
  | .shutdownClient => (.none, { s with shutdown := true, dead := true })
  | op =>
    if s.dead then (.exc connectExc, s)                                  -- wait_until_alive (courier_utils.py:667)
    else
      let r := evalStep (cfgs o.c) op s
      if s.shutdown && r.1.isErr then (.exc shutdownExc, r.2)            -- courier_server.py:217-218
      else r

def mrun (cfgs : Nat → ClientCfg) : List COp → MSrv → List MObs × MSrv
  | [], s => ([], s)
  | o :: ops, s =>
    let r := mstep cfgs o s
    let rest := mrun cfgs ops r.2
    (r.1 :: rest.1, rest.2)

/-- the seeded change C14-m6: the `clear_cache` method additionally calls `lazy_fns.clear_object()` -/
def mstepMutant (cfgs : Nat → ClientCfg) (o : COp) (s : MSrv) : MObs × MSrv :=
  match o.op with
  | .clearCache => (.none, { s with st := { clearCache s.st with hnd := [] } })
  | _ => mstep cfgs o s

def mrunMutant (cfgs : Nat → ClientCfg) : List COp → MSrv → List MObs × MSrv
  | [], s => ([], s)
  | o :: ops, s =>
    let r := mstepMutant cfgs o s
    let rest := mrunMutant cfgs ops r.2
    (r.1 :: rest.1, rest.2)

/-! ## The same history on local objects -/

structure MLoc where
  loc : Loc := {}
  pool : List Gen := []
  gh : List (Nat × Nat) := []
  deriving DecidableEq, Repr, Inhabited

def MSrv.loc (s : MSrv) : MLoc := { loc := s.st.loc, pool := s.pool, gh := s.gh }

def MObs.erase : MObs → LObs
  | .st o => .st o
  | .handle id _ => .var id
  | .elem v => .elem v
  | .raised x => .raised x
  | .info _ _ _ => .none
  | .none => .none
  | .exc x => .raised x

/-- ordinary Python on ordinary objects; the maintenance methods have no local counterpart and do nothing -/
def mlocalStep (op : MOp) (L : MLoc) : LObs × MLoc :=
  match op with
  | .ev o =>
    let r := localStep o L.loc
    (match r.1 with
     | .remote id => .var id
     | ob => .st ob, { L with loc := r.2 })
  | .gen items fin =>
    (.var L.loc.nextVar,
     { L with loc := { L.loc with nextVar := L.loc.nextVar + 1 }, pool := L.pool ++ [⟨items, fin⟩],
              gh := L.gh ++ [(L.loc.nextVar, L.pool.length)] })
  | .giter h =>
    match L.gh.lookup h with
    | some i =>
      (.var L.loc.nextVar,
       { L with loc := { L.loc with nextVar := L.loc.nextVar + 1 }, gh := L.gh ++ [(L.loc.nextVar, i)] })
    | Option.none => (.st (.err .missing), L)
  | .gnext h =>
    match L.gh.lookup h with
    | some i =>
      match L.pool[i]? with
      | some g => (nextLObs (genNext g).1, { L with pool := setAt L.pool i (genNext g).2 })
      | Option.none => (.st (.err .outOfModel), L)
    | Option.none => (.st (.err .missing), L)
  | _ => (.none, L)

def mlocalRun : List MOp → MLoc → List LObs × MLoc
  | [], L => ([], L)
  | o :: ops, L =>
    let r := mlocalStep o L
    let rest := mlocalRun ops r.2
    (r.1 :: rest.1, rest.2)

/-- the requests the history theorem covers: flag-free evaluations (everything `RemoteObject` / `RemoteIterator`
build), generators, and the maintenance methods except the two shutdowns (and `cache_info`, which has no
local counterpart to compare with — it is erased) -/
def MOp.plain : MOp → Bool
  | .ev (.getF _ fs) => fs.all (fun f => !f.cache && !f.lazy)
  | .shutdownParty | .shutdownClient => false
  | _ => true

end MlModel.RemoteMulti
