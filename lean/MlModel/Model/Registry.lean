import MlModel.Model.Basic
/-!
# Worker liveness registry (C20, part 1) — core Lean only

Mirrors `ml_metrics/_src/utils/courier_utils.py`:

* `WorkerRegistry` (lines 42–83, *after* the `fix:` commit that makes `register` keep the
  maximum for a live entry) as `Addr → Option (Option Time)`:
  `none` = address never seen, `some none` = pronounced dead (`None` in the dict),
  `some (some t)` = alive with last heartbeat `t`.
* the client side `CourierClient._is_heartbeat_fresh` / `is_alive` / `_check_heartbeat` /
  `send_heartbeat` / `call` / `shutdown` (lines 554–640, 648–657, 815–821);
* the server side `CourierServer._heartbeat` handler (`courier_server.py:228–239`), both as one
  atomic event (what a delivered call does) and split into *clock read* and *commit* so that
  concurrent handlers can be interleaved (`HbStep`).

Every `WorkerRegistry` method body runs under `self._lock`, so in any concurrent history the
registry sees a *sequence* of `REv` events; the theorems in `Properties/C20.lean` quantify over
all such sequences.

Times are integers (the harness uses a virtual clock with integral ticks); the only arithmetic
the code does on them is `max`, `-`, `<`, `>`.
-/
namespace MlModel.Registry

abbrev Addr := Nat
abbrev Time := Int

/-- One dictionary slot. -/
abbrev Entry := Option (Option Time)

/-- `WorkerRegistry.data`. -/
def Reg := Addr → Entry

def Reg.empty : Reg := fun _ => none

def Reg.set (r : Reg) (a : Addr) (v : Entry) : Reg := fun b => if b = a then v else r b

@[simp] theorem Reg.set_same (r : Reg) (a v) : r.set a v a = v := by simp [Reg.set]
@[simp] theorem Reg.set_other (r : Reg) {a b : Addr} (v) (h : b ≠ a) : r.set a v b = r b := by
  simp [Reg.set, h]

/-- `WorkerRegistry.get(key)` with the default `0.0` (courier_utils.py:52–59): dead and unknown both read 0. -/
def get (r : Reg) (a : Addr) : Time :=
  match r a with
  | some (some t) => t
  | _ => 0

/-- `refresh(address, time_)` (courier_utils.py:61–69): `last = data.get(address, 0)`; a dead entry
(`None`) is left alone, otherwise `max(last, time_)`. -/
def refresh (r : Reg) (a : Addr) (t : Time) : Reg :=
  match r a with
  | none => r.set a (some (some (max 0 t)))
  | some none => r
  | some (some l) => r.set a (some (some (max l t)))

/-- `register(address, time_)` of the **repaired** code: a live entry keeps the maximum,
a dead or unknown one is (re)registered. -/
def register (r : Reg) (a : Addr) (t : Time) : Reg :=
  match r a with
  | some (some l) => r.set a (some (some (max l t)))
  | _ => r.set a (some (some t))

/-- `register` of the unchanged code (`self.data[address] = time_`), kept for `Witness/C20.lean` (F13). -/
def registerOrig (r : Reg) (a : Addr) (t : Time) : Reg := r.set a (some (some t))

/-- `unregister(address)` (courier_utils.py:77–82). -/
def unregister (r : Reg) (a : Addr) : Reg := r.set a (some none)

/-- The events the registry can see (each is atomic under `WorkerRegistry._lock`). -/
inductive REv where
  | register (a : Addr) (t : Time)
  | refresh (a : Addr) (t : Time)
  | unregister (a : Addr)
  deriving DecidableEq, Repr

def REv.apply (r : Reg) : REv → Reg
  | .register a t => Registry.register r a t
  | .refresh a t => Registry.refresh r a t
  | .unregister a => Registry.unregister r a

/-- A history: the registry after a sequence of events. -/
def run (r : Reg) (evs : List REv) : Reg := evs.foldl REv.apply r

/-- `e` is a `register` of address `a`. -/
def REv.registers (a : Addr) : REv → Bool
  | .register b _ => b == a
  | _ => false

/-- `e` is an `unregister` of address `a`. -/
def REv.unregisters (a : Addr) : REv → Bool
  | .unregister b => b == a
  | _ => false

/-- The liveness verdict (courier_utils.py:630): `time.time() - self._last_heartbeat < threshold`. -/
def fresh (now last thr : Time) : Bool := decide (now - last < thr)

/-! ## Server-side heartbeat handler (`courier_server.py:228–239`) -/

/-- What a *delivered* `heartbeat(sender, is_alive)` call does to the registry, as one event:
the handler reads the clock (`now`) and registers / unregisters the sender; an empty sender
only touches the server's own `_last_heartbeat`. -/
def heartbeatEvents (now : Time) (sender : Option Addr) (alive : Bool) : List REv :=
  match sender with
  | none => []
  | some a => if alive then [.register a now] else [.unregister a]

/-- State of one handler activation when handlers run concurrently: `self._last_heartbeat = time.time()`
is one step (the clock read), the registry call another. -/
inductive HbPc where
  | start (sender : Option Addr) (alive : Bool)
  | read (sender : Option Addr) (alive : Bool) (t : Time)
  | done
  deriving DecidableEq, Repr

structure HbCfg where
  now : Time
  reg : Reg
  handlers : Nat → HbPc

/-- Labels of the concurrent handler system: the clock advances by `d ≥ 0`, a handler does its next
step, or any other party performs an atomic registry event. -/
inductive HbLabel where
  | tick (d : Nat)
  | handler (h : Nat)
  | other (e : REv)

def hbStep? (c : HbCfg) : HbLabel → Option HbCfg
  | .tick d => some { c with now := c.now + d }
  | .other e => some { c with reg := e.apply c.reg }
  | .handler h =>
    match c.handlers h with
    | .start s al => some { c with handlers := fun i => if i = h then .read s al c.now else c.handlers i }
    | .read s al t =>
      some { c with reg := run c.reg (heartbeatEvents t s al),
                    handlers := fun i => if i = h then .done else c.handlers i }
    | .done => none

/-! ## Client side (`CourierClient`) and the transport, for sequential-history correspondence -/

/-- What was called (only what matters to liveness). -/
inductive Method where
  | heartbeat (sender : Option Addr) (alive : Bool)
  | plain
  | shutdown
  deriving DecidableEq, Repr

/-- Status of a call's future. `queued`: submitted, not delivered; `hung`: delivered to an unreachable
server (never completes); the other three are *done*. -/
inductive CallSt where
  | queued | hung | ok | failed | cancelled
  deriving DecidableEq, Repr

def CallSt.done : CallSt → Bool
  | .ok | .failed | .cancelled => true
  | _ => false

structure CallRec where
  addr : Addr
  meth : Method
  st : CallSt
  deriving Repr

/-- `StateWithTime`: a call id and the *send* time. -/
structure Pend where
  call : Nat
  time : Time
  deriving DecidableEq, Repr

structure Client where
  addr : Addr
  thr : Time
  pend : List Pend := []
  hb : Option Pend := none
  deriving Repr

structure World where
  now : Time
  reg : Reg
  calls : List CallRec := []      -- index = call id
  queue : List Nat := []          -- undelivered calls in submission order (the fake's `pending`)
  down : List Addr := []          -- unreachable servers
  clients : List Client := []
  stopped : List Addr := []       -- servers whose run loop executed `_shutdown_server` (`Server.Stop()`, `_server = None`)
  noloop : List Addr := []        -- servers restarted by `CourierServer.start()` after a stop: transport up, NO run loop

def World.callSt (w : World) (i : Nat) : CallSt := (w.calls[i]?.map (·.st)).getD .queued

/-- `_HRTBT_INTERVAL_SECS` of courier_utils.py:37 (default `interval` of `_check_heartbeat`). -/
def hbInterval : Time := 30

/-- The loop of `_is_heartbeat_fresh` (courier_utils.py:618–629): every finished pending that did
not fail refreshes the registry with its *send* time; unfinished ones are kept. -/
def foldPend (st : Nat → CallSt) (a : Addr) : Reg → List Pend → Reg × List Pend
  | r, [] => (r, [])
  | r, p :: ps =>
    match st p.call with
    | .ok => foldPend st a (refresh r a p.time) ps
    | .failed | .cancelled => foldPend st a r ps
    | .queued | .hung =>
      let (r', keep) := foldPend st a r ps
      (r', p :: keep)

/-- The registry events `foldPend` performs (all are `refresh`). -/
def foldEvents (st : Nat → CallSt) (a : Addr) : List Pend → List REv
  | [] => []
  | p :: ps => if st p.call = .ok then .refresh a p.time :: foldEvents st a ps else foldEvents st a ps

def World.setClient (w : World) (i : Nat) (c : Client) : World :=
  { w with clients := w.clients.set i c }

/-- Submit a call: new id, appended to the transport queue. -/
def World.submit (w : World) (a : Addr) (m : Method) : World × Nat :=
  ({ w with calls := w.calls ++ [⟨a, m, .queued⟩], queue := w.queue ++ [w.calls.length] }, w.calls.length)

/-- `is_alive` (courier_utils.py:632–640): fold, verdict, and on a negative verdict
`_check_heartbeat` (568–580) which sends at most one heartbeat per interval. -/
def World.isAlive (w : World) (i : Nat) : World × Bool :=
  match w.clients[i]? with
  | none => (w, false)
  | some c =>
    let (r, keep) := foldPend w.callSt c.addr w.reg c.pend
    let c1 := { c with pend := keep }
    let w1 := { w with reg := r }
    if fresh w.now (get r c.addr) c.thr then (w1.setClient i c1, true)
    else
      let send := match c1.hb with
        | none => true
        | some h => (w.callSt h.call).done && decide (w.now - h.time > hbInterval)
      if send then
        let (w2, id) := w1.submit c.addr (.heartbeat none true)
        let p : Pend := ⟨id, w.now⟩
        (w2.setClient i { c1 with hb := some p, pend := c1.pend ++ [p] }, false)
      else (w1.setClient i c1, false)

/-- The verdict alone, as a function of the folded registry. -/
def World.aliveVerdict (w : World) (c : Client) : Bool :=
  fresh w.now (get (foldPend w.callSt c.addr w.reg c.pend).1 c.addr) c.thr

/-- Events of the sequential histories driven against the real objects. -/
inductive Ev where
  | reg (a : Addr) (t : Time)          -- worker_registry().register(a, t)
  | refresh (a : Addr) (t : Time)      -- worker_registry().refresh(a, t)
  | unreg (a : Addr)                   -- worker_registry().unregister(a)
  | tick (d : Nat)                     -- the clock advances
  | alive (i : Nat)                    -- clients[i].is_alive
  | call (i : Nat)                     -- clients[i].call(...): an ordinary RPC, remembered in `_pendings`
  | send (i : Nat) (a : Addr) (al : Bool)   -- clients[i].send_heartbeat(a, al)
  | deliver (k : Nat) (fail : Bool)    -- the transport delivers the k-th queued call (or fails it)
  | kill (a : Addr) | revive (a : Addr)     -- server reachability
  | shutdown (i : Nat)                 -- clients[i].shutdown()
  deriving Repr

def cancelSt : CallSt → CallSt
  | .queued | .hung => .cancelled
  | s => s

/-- Deliver call `id` now (what `fakecourier` does in manual mode; the assumed courier contract).

Server life-cycle (`courier_server.py:139–158, 259–268, 270–314`): a delivered `shutdown` runs the handler
`_request_shutdown`; the server's run loop (`run_until_shutdown`) then executes `_shutdown_server` = `Server.Stop()` —
the address becomes unreachable (`stopped`).  A server that was *restarted* after such a stop (`Ev.revive`,
`CourierServer.start()`: `build_server()` + `Start()`, but `self._thread` is still the old, finished thread, so no new
run loop is started — lines 304–310) answers the `shutdown` call and stays reachable: nobody is left to call
`Server.Stop()` (`noloop`). -/
def World.deliverCall (w : World) (id : Nat) (fail : Bool) : World :=
  match w.calls[id]? with
  | none => w
  | some c =>
    let setSt (w : World) (s : CallSt) : World := { w with calls := w.calls.set id { c with st := s } }
    if c.st = .cancelled then w
    else if w.down.contains c.addr then
      match c.meth with
      | .heartbeat _ _ => setSt w .failed
      | _ => setSt w .hung
    else if fail then setSt w .failed
    else
      match c.meth with
      | .heartbeat s al => setSt { w with reg := run w.reg (heartbeatEvents w.now s al) } .ok
      | .plain => setSt w .ok
      | .shutdown =>
        if w.noloop.contains c.addr then setSt w .ok
        else setSt { w with down := c.addr :: w.down, stopped := c.addr :: w.stopped } .ok

/-- One event; the Boolean is the observed return value of `is_alive` (false for other events). -/
def World.step (w : World) : Ev → World × Bool
  | .reg a t => ({ w with reg := register w.reg a t }, false)
  | .refresh a t => ({ w with reg := refresh w.reg a t }, false)
  | .unreg a => ({ w with reg := unregister w.reg a }, false)
  | .tick d => ({ w with now := w.now + d }, false)
  | .alive i => w.isAlive i
  | .call i =>
    match w.clients[i]? with
    | none => (w, false)
    | some c =>
      let (w1, id) := w.submit c.addr .plain
      (w1.setClient i { c with pend := c.pend ++ [⟨id, w.now⟩] }, false)
  | .send i a al =>
    -- `if not self.is_alive: self._refresh_clients()` then the heartbeat call (courier_utils.py:559–565)
    let (w1, _) := w.isAlive i
    match w1.clients[i]? with
    | none => (w1, false)
    | some c => ((w1.submit c.addr (.heartbeat (some a) al)).1, false)
  | .deliver k fail =>
    match w.queue with
    | [] => (w, false)
    | q =>
      let j := k % q.length
      let id := q.getD j 0
      ({ w with queue := q.eraseIdx j }.deliverCall id fail, false)
  | .kill a => ({ w with down := a :: w.down }, false)
  | .revive a =>
    -- the harness' `restart`: `if not srv.has_started: srv.start()` (a stopped server is rebuilt and started, without
    -- a run loop) and the transport makes the address reachable again
    if w.stopped.contains a then
      ({ w with down := w.down.filter (· != a), stopped := w.stopped.filter (· != a), noloop := a :: w.noloop }, false)
    else ({ w with down := w.down.filter (· != a) }, false)
  | .shutdown i =>
    match w.clients[i]? with
    | none => (w, false)
    | some c =>
      let (w1, _) := w.submit c.addr .shutdown
      let ids := c.pend.map (·.call)
      let calls := w1.calls.mapIdx fun j cr => if ids.contains j then { cr with st := cancelSt cr.st } else cr
      ({ w1 with calls := calls, reg := unregister w1.reg c.addr }.setClient i { c with pend := [] }, false)

/-- The registry events an `Ev` performs (the projection used by the history theorems). -/
def World.regEvents (w : World) : Ev → List REv
  | .reg a t => [.register a t]
  | .refresh a t => [.refresh a t]
  | .unreg a => [.unregister a]
  | .alive i | .send i _ _ =>
    match w.clients[i]? with
    | none => []
    | some c => foldEvents w.callSt c.addr c.pend
  | .deliver k fail =>
    match w.queue with
    | [] => []
    | q =>
      match w.calls[q.getD (k % q.length) 0]? with
      | none => []
      | some c =>
        if c.st = .cancelled ∨ w.down.contains c.addr ∨ fail then []
        else match c.meth with
          | .heartbeat s al => heartbeatEvents w.now s al
          | _ => []
  | .shutdown i =>
    match w.clients[i]? with
    | none => []
    | some c => [.unregister c.addr]
  | _ => []

def World.runEvs (w : World) : List Ev → World × List Bool
  | [] => (w, [])
  | e :: es =>
    let (w1, b) := w.step e
    let (w2, bs) := w1.runEvs es
    (w2, b :: bs)

/-! ## Vocabulary of the history theorems (`Properties/C20.lean`) -/

/-- No event of the history performs a `register a` (checked along the run, because which call a
`deliver` delivers depends on the state). -/
def NoRegister (a : Addr) : World → List Ev → Prop
  | _, [] => True
  | w, e :: es => (∀ x ∈ w.regEvents e, x.registers a = false) ∧ NoRegister a (w.step e).1 es

/-- A handler that would unregister `a`. -/
def hbUnregs (a : Addr) : HbPc → Bool
  | .start (some b) false => b == a
  | .read (some b) false _ => b == a
  | _ => false

def labelUnregs (a : Addr) : HbLabel → Bool
  | .other e => e.unregisters a
  | _ => false

/-- Run the concurrent heartbeat-handler system along a label sequence (disabled labels are skipped). -/
def hbRun (c : HbCfg) : List HbLabel → HbCfg
  | [] => c
  | l :: ls => hbRun ((hbStep? c l).getD c) ls

end MlModel.Registry
