import MlModel.Model.Basic
/-!
# Model of `func_utils.LruCache` (ml_metrics/_src/utils/func_utils.py:43-98)

`collections.OrderedDict` is an association list, **oldest entry first** (iteration order of the
dict).  Every method is written out as coded, including the separate `currsize` counter and the
fact that `__setitem__` on a key that is already present replaces the value *in place* (no
`move_to_end`): an overwrite does not refresh the entry's age.
-/
namespace MlModel.Lru

structure Cache (κ ν : Type) where
  /-- `self.maxsize` -/
  maxsize : Nat
  /-- `self.currsize` (a counter of its own in the code, not `len(self.data)`) -/
  currsize : Nat := 0
  hits : Nat := 0
  misses : Nat := 0
  /-- `self.data` (OrderedDict), oldest first -/
  data : List (κ × ν) := []
  deriving Repr

variable {κ ν : Type} [DecidableEq κ]

def empty (maxsize : Nat) : Cache κ ν := { maxsize := maxsize }

/-- `key in self.data` -/
def has (d : List (κ × ν)) (k : κ) : Bool := d.any (·.1 == k)

/-- `self.data[key]` when present -/
def find? (d : List (κ × ν)) (k : κ) : Option ν := (d.find? (·.1 == k)).map (·.2)

/-- `del self.data[key]` -/
def remove (d : List (κ × ν)) (k : κ) : List (κ × ν) := d.filter (fun p => !(p.1 == k))

/-- `self.data[key] = value` of an OrderedDict: in place when present, appended when new. -/
def assign (d : List (κ × ν)) (k : κ) (v : ν) : List (κ × ν) :=
  if has d k then d.map (fun p => if p.1 == k then (k, v) else p) else d ++ [(k, v)]

/-- `self.data.move_to_end(key)` (key present) -/
def moveToEnd (d : List (κ × ν)) (k : κ) : List (κ × ν) :=
  match find? d k with
  | some v => remove d k ++ [(k, v)]
  | none => d

/-- `__contains__` (func_utils.py:76) -/
def Cache.contains (c : Cache κ ν) (k : κ) : Bool := has c.data k

/-- `__iter__` (func_utils.py:79): keys, oldest first -/
def Cache.keys (c : Cache κ ν) : List κ := c.data.map (·.1)

/-- `__len__` (func_utils.py:82) returns the counter -/
def Cache.len (c : Cache κ ν) : Nat := c.currsize

/-- `__getitem__` (func_utils.py:53-60): `none` = `KeyError`. -/
def Cache.getitem (c : Cache κ ν) (k : κ) : Option ν × Cache κ ν :=
  match find? c.data k with
  | none => (none, { c with misses := c.misses + 1 })
  | some v => (some v, { c with hits := c.hits + 1, data := moveToEnd c.data k })

/-- `__setitem__` (func_utils.py:62-71) = `cache_insert`. -/
def Cache.setitem (c : Cache κ ν) (k : κ) (v : ν) : Cache κ ν :=
  let isNew := !has c.data k
  let d1 := assign c.data k v
  let (cs1, d2) := if isNew then (c.currsize + 1, moveToEnd d1 k) else (c.currsize, d1)
  if cs1 > c.maxsize then
    -- `oldest = next(iter(self.data)); del self.data[oldest]; self.currsize -= 1`
    match d2 with
    | [] => { c with currsize := cs1 - 1, data := [] }   -- (StopIteration in the code; unreachable when currsize = len(data))
    | (k0, _) :: _ => { c with currsize := cs1 - 1, data := remove d2 k0 }
  else { c with currsize := cs1, data := d2 }

/-- `cache_clear` (func_utils.py:85-89) -/
def Cache.clear (c : Cache κ ν) : Cache κ ν :=
  { c with data := [], currsize := 0, hits := 0, misses := 0 }

/-- Raw operations of the mapping, for histories. -/
inductive Op (κ ν : Type) where
  | get (k : κ)
  | set (k : κ) (v : ν)
  | clear
  deriving Repr

def Cache.step (c : Cache κ ν) : Op κ ν → Cache κ ν
  | .get k => (c.getitem k).2
  | .set k v => c.setitem k v
  | .clear => c.clear

def Cache.run (c : Cache κ ν) (ops : List (Op κ ν)) : Cache κ ν := ops.foldl Cache.step c

/-- The access pattern of `_maybe_lru_cache` / `lru_cache`: look the key up, on a miss compute and insert. -/
def Cache.access (c : Cache κ ν) (k : κ) (compute : κ → ν) : ν × Cache κ ν :=
  match c.getitem k with
  | (some v, c') => (v, c')
  | (none, c') => (compute k, c'.setitem k (compute k))

end MlModel.Lru

namespace MlModel.Lru
variable {κ ν : Type} [DecidableEq κ]

/-- `func_utils.lru_cache`'s `wrapped` (func_utils.py:114-123) on an already hashed key:
`if not cache_insert_ and key in cache_: result = cache_[key] else: result = fn(..); cache_[key] = result`.
With `cache_insert_=True` a present key is **overwritten** through `__setitem__`. -/
def Cache.wrapped (c : Cache κ ν) (k : κ) (cacheInsert : Bool) (compute : κ → ν) : ν × Cache κ ν :=
  if !cacheInsert && c.contains k then
    match c.getitem k with
    | (some v, c') => (v, c')
    | (none, c') => (compute k, c')       -- unreachable: `contains` was true
  else (compute k, c.setitem k (compute k))

/-! ## Textbook LRU (the specification the cache is compared with)

A list of at most `cap` entries with distinct keys, least recently used first.  A hit makes the
entry the most recent one; a `put` inserts or **refreshes** the entry as most recent and drops the
least recent entry when the capacity is exceeded. -/
namespace Spec

def touch (d : List (κ × ν)) (k : κ) (v : ν) : List (κ × ν) := remove d k ++ [(k, v)]

def get (d : List (κ × ν)) (k : κ) : List (κ × ν) :=
  match find? d k with
  | some v => touch d k v
  | none => d

def put (cap : Nat) (d : List (κ × ν)) (k : κ) (v : ν) : List (κ × ν) :=
  let d' := touch d k v
  if d'.length > cap then d'.drop 1 else d'

def step (cap : Nat) (d : List (κ × ν)) : Op κ ν → List (κ × ν)
  | .get k => get d k
  | .set k v => put cap d k v
  | .clear => []

def run (cap : Nat) (d : List (κ × ν)) (ops : List (Op κ ν)) : List (κ × ν) := ops.foldl (step cap) d

/-- Keys ordered by last use (least recent first) of an access history. -/
def recency (hist : List κ) : List κ := hist.foldl (fun acc k => acc.filter (fun x => !(x == k)) ++ [k]) []

/-- The `cap` most recently used distinct keys of a history, least recent first. -/
def lruKeys (cap : Nat) (hist : List κ) : List κ :=
  let r := recency hist
  r.drop (r.length - cap)

end Spec
end MlModel.Lru
