import MlModel.Model.Sched
/-!
# `as_completed` with the workers' `_pendings` made explicit (C06, round 13)

`Model/Sched.lean` computes a worker's capacity from the master's `running_tasks`
(`AC.hasCapacity`: no tracked call is in flight on the worker).  The real code computes it from the
worker's own list of futures (ml_metrics/_src/utils/courier_utils.py:550-555
`has_capacity = len(self.pendings) < self.max_parallelism`, `pendings` = the entries of `_pendings`
whose future is not done, :646-649; `_pendings.append` in `call`, :653-660).  The two agree only
because `as_completed` FAILS the future of a call it abandons (orchestrate.py:528-537, the
"worker disconnected" branch: `task.state.set_exception(TimeoutError(..))`): with no call timeout a call
that was in flight when its worker died never completes by itself.

`ACP` = `AC` + `pend w` = `len(worker_w.pendings)`.  `acpStep failOrphan` runs `acStep` and keeps the
count as the code does; `failOrphan = true` is the shipped code, `false` the code without the
`set_exception` (seeded change C06-m6): the abandoned future stays pending for ever.
`next_idle_worker` consults `has_capacity`, i.e. the count: `.submit w` is additionally guarded by it.
-/
namespace MlModel.Sched

def CallSt.isFlying : CallSt → Bool
  | .flying _ => true
  | _ => false

/-- number of calls in flight on worker `w` that the master still tracks in `running_tasks` -/
def AC.flyingOn (s : AC) (w : Nat) : Nat :=
  s.running.countP fun r => r.worker == w && r.st.isFlying

def pendBump (f : Nat → Nat) (w : Nat) : Nat → Nat := fun v => if v = w then f v + 1 else f v

def pendDrop (f : Nat → Nat) (w : Nat) : Nat → Nat := fun v => if v = w then f v - 1 else f v

structure ACP where
  ac : AC
  /-- `len(worker.pendings)` per worker -/
  pend : Nat → Nat := fun _ => 0

def ACP.init (nWorkers nTasks : Nat) : ACP := { ac := AC.init nWorkers nTasks }

/-- courier_utils.py:550-555 with `max_parallelism = 1` -/
def ACP.hasCapacity (p : ACP) (w : Nat) : Bool := p.pend w < 1

def acpStep (failOrphan : Bool) (c : ACfg) (p : ACP) (l : ALabel) : Option ACP :=
  match acStep c p.ac l with
  | none => none
  | some s' =>
    match l with
    | .submit w =>
      if p.hasCapacity w then
        match p.ac.draw.tasks with
        | [] => some { ac := s', pend := p.pend }
        | _ :: _ => some { ac := s', pend := pendBump p.pend w }          -- `_pendings.append(StateWithTime(state, ..))`
      else none
    | .complete i =>
      match p.ac.running[i]? with
      | some r => some { ac := s', pend := pendDrop p.pend r.worker }    -- the transport completes the future
      | none => none
    | .check i =>
      match p.ac.running[i]? with
      | some r =>
        match r.st with
        | .flying _ =>                                                 -- "Worker .. disconnected."
          some { ac := s', pend := if failOrphan then pendDrop p.pend r.worker else p.pend }
        | _ => some { ac := s', pend := p.pend }
      | none => none
    | _ => some { ac := s', pend := p.pend }

inductive PReach (failOrphan : Bool) (c : ACfg) (p0 : ACP) : ACP → Prop where
  | refl : PReach failOrphan c p0 p0
  | step {p p' : ACP} (l : ALabel) : PReach failOrphan c p0 p → acpStep failOrphan c p l = some p' →
      PReach failOrphan c p0 p'

/-- runs a list of labels (for witnesses) -/
def acpRun (failOrphan : Bool) (c : ACfg) : ACP → List ALabel → Option ACP
  | p, [] => some p
  | p, l :: ls =>
    match acpStep failOrphan c p l with
    | none => none
    | some p' => acpRun failOrphan c p' ls

end MlModel.Sched
