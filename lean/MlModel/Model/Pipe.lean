import MlModel.Model.Iter
import MlModel.Model.Rebatch
/-!
# Pipeline operators (`chainables/tree_fns.py`, `chainables/transform.py`)

Two semantics of the same operator AST:

* `Ref.*` — the **reference interpreter** (the specification): one record through one operator,
  lifted to streams record by record.  Written from the English statement of property C08/C12.
* `Impl.*` — the **implementation model**, mirroring the code: key normalisation
  (`TreeFn.__post_init__`), `_get_inputs`, `_maybe_call_fn`, `_normalize_outputs`, `_get_outputs`,
  `TreeFn._iterate` as a stack of iterators (resumable `map`s, the `rebatched_args` *generator*,
  `iter_ignore_error`), `processed_with_inputs` with the `_TeeIterator` FIFO, `FilterFn`, `Assign`,
  `Sink` (`finally: close`), the runner's fold of `fn.iterate`, and the builder's checks
  (`Build.*`, `Except` at construction).

Records and values are one universe (`Val`): a record is whatever flows between operators.
**Tuple values vs the tuples of the calling convention.**  `Val.tuple` is a Python tuple *value* (a record field, a
function result).  The tuple of selected inputs (`_get_inputs`) and the tuple of outputs (`_normalize_outputs`) of a
call are `List Val` — never a `Val` — so a selected value that happens to be a tuple (of length 0, 1, the number of
keys, …) is ONE element of the argument list and cannot be confused with it.  The two meet at exactly two places,
both written out below: `identityFn` turns the argument list into a tuple value (`_identity_fn(*x) = x`), and
`outputsOf` reads a tuple *result* as several outputs.  `Model/PipeFnless.lean` + `C08_fnless_identity` show that for
operators without a function the two cancel for every value; `C08_result_packing` states the conventions for the
result of a user function.
Tree access is the small part of `tree.TreeMapView` the operators use (`getKey` = `__get`,
`setKey` = `_set_by_path(in_place=False)`); the laws about it are the business of C18.
-/
namespace MlModel.Pipe
open MlModel.Iter

/-! ## Values -/

inductive Val where
  | none                      -- Python `None`
  | null                      -- `tree.NullMap()`, the placeholder `_get_outputs` starts from
  | bool (b : Bool)
  | int (i : Int)
  | str (s : String)
  | list (xs : List Val)
  | tuple (xs : List Val)
  | dict (kvs : List (String × Val))     -- insertion ordered, string keys
  deriving Repr, Inhabited, BEq

/-- Python truthiness (`if value`) -/
def Val.truthy : Val → Bool
  | .none => false
  | .null => true            -- a plain object
  | .bool b => b
  | .int i => i != 0
  | .str s => s != ""
  | .list xs => !xs.isEmpty
  | .tuple xs => !xs.isEmpty
  | .dict kvs => !kvs.isEmpty

/-! ## Keys -/

/-- one step of a key path: a mapping key or `Key.Index(i)` -/
inductive Seg where
  | name (s : String)
  | idx (i : Nat)
  deriving DecidableEq, Repr, Inhabited

/-- a `TreeMapKey`.  `name "a"` is the bare string `'a'`, `path [..]` a `tree.Key` instance
(`Key().a.b`, `Key().at(Index(0))`); they read and write the same place but are different
elements of the builder's `output_keys` *set* (`'a' != Key(('a',))`). -/
inductive Key where
  | name (s : String)
  | index (i : Nat)
  | path (p : List Seg)
  | self                      -- `Key.SELF`
  | skip                      -- `Key.SKIP`
  | lit (v : Val)             -- `Key.Literal(v)`
  deriving Repr, Inhabited

/-- an element of `output_keys`: a key, or a dict `{record_key: key_into_the_output}`.  The record
key (the place that is written) is any key — a bare string, a `Key` path, `SELF` …; the value (the
place that is read in the function's output) is unrelated to it. -/
inductive OutKey where
  | key (k : Key)
  | dict (items : List (Key × Key))
  deriving Repr, Inhabited

def Key.isSelf : Key → Bool
  | .self => true
  | _ => false

def OutKey.isSelf : OutKey → Bool
  | .key k => k.isSelf
  | .dict _ => false

/-- `Literal.__repr__` of the literals the correspondence uses -/
def litRepr : Val → String
  | .int i => s!"Literal({i})"
  | .none => "Literal(None)"
  | .bool true => "Literal(True)"
  | .bool false => "Literal(False)"
  | .str s => s!"Literal('{s}')"
  | _ => "Literal(?)"

/-! ## Tree access (`tree.TreeMapView`, tree.py:371–388, 436–495) -/

def lookup (k : String) : List (String × Val) → Option Val
  | [] => none
  | (k', v) :: rest => if k' = k then some v else lookup k rest

/-- `d[k] = v` on an insertion-ordered dict -/
def upsert (k : String) (v : Val) : List (String × Val) → List (String × Val)
  | [] => [(k, v)]
  | (k', v') :: rest => if k' = k then (k, v) :: rest else (k', v') :: upsert k v rest

/-- the dict key an `Index` turns into when it is used on a mapping (`str(Index(3))`) -/
def idxName (i : Nat) : String := s!"Index({i})"

/-- `data[k]` inside `TreeMapView.__get` (tree.py:380–387) -/
def getSeg (data : Val) (k : Seg) : Except ErrKind Val :=
  match data, k with
  | .dict kvs, .name s => (match lookup s kvs with | some v => .ok v | none => .error .key)
  | .dict kvs, .idx i => (match lookup (idxName i) kvs with | some v => .ok v | none => .error .key)
  | .list xs, .idx i => (match xs[i]? with | some v => .ok v | none => .error .index)
  | .tuple xs, .idx i => (match xs[i]? with | some v => .ok v | none => .error .index)
  | .list _, .name _ => .error .type          -- list indices must be integers
  | .tuple _, .name _ => .error .type
  | _, _ => .error .key                       -- 'Cannot use "k" as a mapping key on a type of ...'

def getPath (data : Val) : List Seg → Except ErrKind Val
  | [] => .ok data
  | k :: rest => do let d ← getSeg data k; getPath d rest

/-- `TreeMapView(data).__get(key)` -/
def getKey (data : Val) : Key → Except ErrKind Val
  | .name s => getSeg data (.name s)
  | .index i => getSeg data (.idx i)
  | .path p => getPath data p
  | .self => .ok data
  | .skip => getSeg data (.name "SKIP")       -- `Reserved('SKIP')` is just the string 'SKIP' to `data[k]`
  | .lit v => .ok v

/-- `_default_tree(key_path, value)` (tree.py:268–283) -/
def defaultTree (v : Val) : List Seg → Except ErrKind Val
  | [] => .ok v
  | .idx 0 :: rest => do let c ← defaultTree v rest; .ok (.list [c])
  | .idx _ :: _ => .error .value
  | .name s :: rest => do let c ← defaultTree v rest; .ok (.dict [(s, c)])

/-- errors raised inside the `try:` of `_set_by_path` come out as `KeyError` (tree.py:487–491) -/
def asKeyError {α : Type} : Except ErrKind α → Except ErrKind α
  | .ok a => .ok a
  | .error _ => .error .key

/-- the `is_array_like(result)` arm of `_set_by_path`: `key == len(result)` appends a `NullMap`
first; `setChild c` is the recursive call on the child -/
def setSeq (setChild : Val → Except ErrKind Val) (xs : List Val) (k : Seg) : Except ErrKind (List Val) :=
  match k with
  | .name _ => .error .type
  | .idx i =>
    if i = xs.length then do
      let c ← setChild .null
      .ok (xs ++ [c])
    else match xs[i]? with
      | some child => do
        let c ← setChild child
        .ok (xs.set i c)
      | none => .error .index

/-- `_set_by_path(tree, key_path, value, in_place=False)` for a path of names / indices
(tree.py:436–495): shallow copy along the path, `NullMap` children are created. -/
def setPath (tree : Val) (p : List Seg) (v : Val) : Except ErrKind Val :=
  match p with
  | [] => .ok v
  | k :: rest =>
    match tree with
    | .null => defaultTree v (k :: rest)
    | .dict kvs =>
      let key := match k with | .name s => s | .idx i => idxName i
      let child := (lookup key kvs).getD .null
      asKeyError do
        let c ← setPath child rest v
        .ok (.dict (upsert key c kvs))
    | .list xs => asKeyError do let ys ← setSeq (fun c => setPath c rest v) xs k; .ok (.list ys)
    | .tuple xs => asKeyError do let ys ← setSeq (fun c => setPath c rest v) xs k; .ok (.tuple ys)
    | _ => .error .type                        -- 'Insert to immutable ...'

/-- When `true` the repaired `_set_by_path` is modelled (fix 2dc19b6 on /repo main, finding F27 of
C18 = F-C08-skip-first): a leading `Key.SKIP` returns the tree untouched *before* anything else is
looked at — also the `NullMap` placeholder, also an immutable leaf.  The unrepaired code built
`{'SKIP': value}` on the placeholder and raised `TypeError` on a leaf. -/
def skipFixed : Bool := true

/-- `TreeMapView(tree).copy_and_set(key, value)` for one key -/
def setKey (tree : Val) (k : Key) (v : Val) : Except ErrKind Val :=
  match k with
  | .self => .ok v                              -- `_is_key(key_path[0], _SELF)`: the value replaces the root
  | .name s => setPath tree [.name s] v
  | .index i => setPath tree [.idx i] v
  | .path p => setPath tree p v
  | .lit x => setPath tree [.name (litRepr x)] v
  | .skip =>
    if skipFixed then .ok tree
    else match tree with
      | .null => .ok (.dict [("SKIP", v)])
      | .dict _ | .list _ | .tuple _ => .ok tree  -- `case (Reserved() as reserved, *_): pass`
      | _ => .error .type

/-! ## User callables

A user function has private state (a `Nat`: enough for the stateful `counter()` of the callable
library; the theorems quantify over all of them).  It receives positional and keyword arguments. -/

abbrev UFn := Nat → List Val → List (String × Val) → Except ErrKind Val × Nat

/-- `_identity_fn(*x) = x` (tree_fns.py:41): the function behind every operator WITHOUT a function (`select`,
`apply` / `assign` with `fn=None`).  Its result is the ARGUMENT TUPLE as a tuple value — `.tuple args` for every
number of arguments, also exactly one (`x[0] if len(x) == 1 else x` is the seeded regression C08-m3,
`identityFnUnwrap` in `Model/PipeFnless.lean`, refuted by `C08_fnless_unwrap_witness`). -/
def identityFn : UFn := fun s args _ => (.ok (.tuple args), s)

/-! ## Operators -/

inductive OpKind where
  | select | apply | assign | filter | sink
  deriving DecidableEq, Repr, Inhabited

/-- a `TreeFn` after `__post_init__`: keys are normalised to tuples, dict input keys are split
into `argNames` and `inKeys` (tree_fns.py:86–113) -/
structure Op where
  kind : OpKind
  inKeys : List Key
  argNames : List String := []
  outKeys : List OutKey
  fn : UFn
  s0 : Nat := 0
  fnBatch : Nat := 0
  batch : Nat := 0

/-- `_get_inputs` (tree_fns.py:193–199, no masks): `TreeMapView.as_view(inputs)[self.input_keys]` — `input_keys`
is always a tuple after `__post_init__`, so the result is the tuple of the selected values, one per key (here: a
`List Val`; a selected value that is itself a tuple is one element of it) -/
def getInputs (op : Op) (r : Val) : Except ErrKind (List Val) :=
  op.inKeys.mapM (getKey r)

/-- `_maybe_call_fn` (tree_fns.py:201–213): positional or keyword call; *every* exception of the
function comes out as `ValueError(...) from e`. -/
def callFn (op : Op) (s : Nat) (ins : List Val) : Ev Val × Nat :=
  let (r, s') :=
    if op.argNames.isEmpty then op.fn s ins []
    else op.fn s [] (op.argNames.zip ins)
  match r with
  | .ok v => (.ok v, s')
  | .error k => (.error { kind := .value, cause := some k }, s')

/-- When `true` the repaired `_normalize_outputs` is modelled: an empty `output_keys` is "not
SELF" instead of `IndexError` (finding F9). -/
def f9Fixed : Bool := true

/-- the outputs of a call: a tuple RESULT is several outputs — its elements, whatever they are: an element that is
itself a tuple is not looked into — anything else is one output (`_normalize_outputs` wraps a single output:
`if not isinstance(outputs, tuple): outputs = (outputs,)`).  Consequences (`C08_result_packing`): a returned 1-tuple
`(x,)` is the one output `x`; a returned `()` is no output at all. -/
def outputsOf (v : Val) : List Val :=
  match v with
  | .tuple xs => xs
  | x => [x]

/-- `_normalize_outputs` (tree_fns.py:175–191) where it does not raise: the tuple / single value
duality, and the `SELF` re-wrapping (`output_to_self and len(outputs) > 1`). -/
def normOuts (op : Op) (v : Val) : List Val :=
  match op.outKeys with
  | [] => outputsOf v
  | k :: _ => if k.isSelf && (outputsOf v).length > 1 then [.tuple (outputsOf v)] else outputsOf v

/-- `_normalize_outputs`: the unrepaired code raised `IndexError` on `self.output_keys[0]` when
`output_keys` is empty (finding F9) -/
def normalizeOutputs (op : Op) (v : Val) : Except ErrKind (List Val) :=
  if op.outKeys.isEmpty && !f9Fixed then .error .index else .ok (normOuts op v)

/-- `TreeMapView(data).copy_and_set(tuple(keys.keys()), values)` for the record keys of a dict output
key (tree.py:512–528: one `_set_by_path` per key, in order) -/
def setNames (tree : Val) : List Key → List Val → Except ErrKind Val
  | [], [] => .ok tree
  | n :: ns, v :: vs => do let t ← setKey tree n v; setNames t ns vs
  | _, _ => .error .value

/-- the body of the `for keys, output in zip(self.output_keys, outputs, strict=True)` loop -/
def setOne (tree : Val) (k : OutKey) (output : Val) : Except ErrKind Val :=
  match k with
  | .key k => setKey tree k output
  | .dict items => do
    let values ← items.mapM fun (_, key) => getKey output key
    setNames tree (items.map (·.1)) values

def setZip (tree : Val) : List OutKey → List Val → Except ErrKind Val
  | [], [] => .ok tree
  | k :: ks, o :: os => do let t ← setOne tree k o; setZip t ks os
  | _, _ => .error .value                       -- zip(strict=True)

/-- `_get_outputs(outputs, inputs)` (tree_fns.py:215–228): ONE output key and several outputs — the key receives the
whole tuple of outputs (a function returning a tuple with one output key stores the tuple); otherwise
`zip(output_keys, outputs, strict=True)`: with n keys a tuple result of n elements is unzipped, output i under key i;
a different number of outputs raises `ValueError` -/
def getOutputs (op : Op) (base : Val) (outs : List Val) : Except ErrKind Val :=
  match op.outKeys with
  | [k] =>
    if outs.length > 1 then
      -- one key, many outputs: the key receives the whole tuple
      match k with
      | .key k => setKey base k (.tuple outs)
      | .dict _ =>                               -- a dict used as a path element
        match base with
        | .null => .error .value                 -- `_default_tree`: 'Unsupported key'
        | .dict _ | .list _ | .tuple _ => .error .key
        | _ => .error .type
    else setZip base [k] outs
  | ks => setZip base ks outs

def liftErr {α : Type} : Except ErrKind α → Ev α
  | .ok a => .ok a
  | .error k => .error { kind := k }

/-! ## Reference interpreter (the specification)

One record through one operator.  `none` = the record is dropped (filter).  The user function's
state is threaded; a sink's function is `write`, whose successful calls are the sink's log. -/
namespace Ref

/-- where output `o` goes for output key `k`: `SKIP` discards it, `SELF` makes it the record,
a dict key `{n: p}` stores `o[p]` under `n`, any other key stores it at that place -/
def route (rec : Val) (k : OutKey) (o : Val) : Except ErrKind Val :=
  match k with
  | .key .skip => .ok rec
  | .key .self => .ok o
  | .key k => setKey rec k o
  | .dict items => do
    let values ← items.mapM fun (_, key) => getKey o key
    setNames rec (items.map (·.1)) values

def routeAll (rec : Val) : List OutKey → List Val → Except ErrKind Val
  | [], [] => .ok rec
  | k :: ks, o :: os => do let r ← route rec k o; routeAll r ks os
  | _, _ => .error .value                       -- as many outputs as keys

/-- output routing: as many outputs as keys — or one key for the whole tuple of outputs -/
def write (op : Op) (base : Val) (v : Val) : Except ErrKind Val :=
  let outs := outputsOf v
  match op.outKeys, outs with
  | [k], _ :: _ :: _ =>
    (match k with
     | .key k => route base (.key k) (.tuple outs)
     | .dict _ => getOutputs op base outs)       -- not a meaningful combination: whatever the code does
  | ks, outs => routeAll base ks outs

structure Out where
  /-- `some r`: forwarded record; `none`: dropped by a filter -/
  fwd : Option Val
  /-- the arguments of a successful `sink.write` -/
  written : Option (List Val × List (String × Val)) := none

/-- one record through one operator -/
def sem (op : Op) (s : Nat) (r : Val) : Ev Out × Nat :=
  match getInputs op r with
  | .error k => (.error { kind := k }, s)
  | .ok ins =>
    match callFn op s ins with
    | (.error e, s') => (.error e, s')
    | (.ok v, s') =>
      match op.kind with
      | .select | .apply => ((liftErr (write op .null v)).map fun x => { fwd := some x }, s')
      | .assign => ((liftErr (write op r v)).map fun x => { fwd := some x }, s')
      | .filter => (.ok { fwd := if v.truthy then some r else none }, s')
      | .sink =>
        (.ok { fwd := some r,
               written := some (if op.argNames.isEmpty then (ins, []) else ([], op.argNames.zip ins)) }, s')

/-- reading the inputs and calling the function: the part of the processing whose skippable
errors make the runner skip the record when skipping is on -/
def semCall (op : Op) (s : Nat) (r : Val) : Ev Val × Nat :=
  match getInputs op r with
  | .error k => (.error { kind := k }, s)
  | .ok ins => callFn op s ins

/-- what becomes of record `r` once the function has returned `v` -/
def semWrite (op : Op) (r : Val) (v : Val) : Ev (Option Val) :=
  match op.kind with
  | .select | .apply => (liftErr (write op .null v)).map some
  | .assign => (liftErr (write op r v)).map some
  | .filter => .ok (if v.truthy then some r else none)
  | .sink => .ok (some r)

/-- **`sem` lifted to streams** (the reference for one operator): the records in order, each
through `semCall` and `semWrite`.  An error of the incoming stream is passed on.  With skipping
off every error ends the stream; with skipping on a record whose `semCall` raises a skippable
error is left out — an error of the output routing is never skipped, it is passed on like an
error of the incoming stream.  Nothing follows a terminal error. -/
def opEvents (ignore : Bool) (op : Op) : Nat → List (Ev Val) → List (Ev Val)
  | _, [] => []
  | s, .error e :: rest =>
    if terminal ignore e then [.error e] else .error e :: opEvents ignore op s rest
  | s, .ok r :: rest =>
    match semCall op s r with
    | (.error e, s') => if terminal ignore e then [.error e] else opEvents ignore op s' rest
    | (.ok v, s') =>
      match semWrite op r v with
      | .error e => if terminal ignore e then [.error e] else .error e :: opEvents ignore op s' rest
      | .ok (some x) => .ok x :: opEvents ignore op s' rest
      | .ok none => opEvents ignore op s' rest

/-- the reference for a chain: operator after operator -/
def chainEvents (ignore : Bool) : List Op → List (Ev Val) → List (Ev Val)
  | [], evs => cutTerminal ignore evs
  | op :: ops, evs => chainEvents ignore ops (opEvents ignore op op.s0 evs)

/-- No skippable error is ever *passed on*: neither the source nor the output routing of an
operator raises one.  (With skipping off this is vacuous: every error is terminal.)  Under this
condition `opEvents` / `chainEvents` are the whole story.  Without it the real runner *skips* a
passed-on skippable error at the next operator, whatever its kind (`apply` / `select`: the guard of
`map_ignore_error`; `assign` / `filter` / `sink`: the wrapper in `processed_with_inputs` — the
repair of finding F-C12-passed-on): that reference is `chainEventsS` below. -/
def Clean (ignore : Bool) (evs : List (Ev Val)) : Prop :=
  ∀ e, Except.error e ∈ evs → terminal ignore e = true

def CleanRun (ignore : Bool) : List Op → List (Ev Val) → Prop
  | [], evs => Clean ignore evs
  | op :: ops, evs => Clean ignore evs ∧ CleanRun ignore ops (opEvents ignore op op.s0 evs)

/-- `Clean` / `CleanRun` as Booleans -/
def cleanB (ignore : Bool) (evs : List (Ev Val)) : Bool :=
  evs.all fun ev => match ev with | .error e => terminal ignore e | .ok _ => true

def cleanRunB (ignore : Bool) : List Op → List (Ev Val) → Bool
  | [], evs => cleanB ignore evs
  | op :: ops, evs => cleanB ignore evs && cleanRunB ignore ops (opEvents ignore op op.s0 evs)

/-- an operator together with the current state of its function and the log of its successful
`write` calls (meaningful for sinks) -/
structure OpSt where
  op : Op
  s : Nat
  log : List (List Val × List (String × Val)) := []

def OpSt.init (op : Op) : OpSt := { op := op, s := op.s0 }

/-- One record through the whole chain, operator after operator.  `.ok none`: the record was
dropped (rejected by a filter, or — with skipping on — its processing raised a skippable error).
`.error e`: the error ends the stream. -/
def push (ignore : Bool) : List OpSt → Val → Ev (Option Val) × List OpSt
  | [], r => (.ok (some r), [])
  | o :: os, r =>
    match sem o.op o.s r with
    | (.ok out, s') =>
      let o' := { o with s := s', log := o.log ++ out.written.toList }
      (match out.fwd with
       | some r' => let (res, os') := push ignore os r'; (res, o' :: os')
       | none => (.ok none, o' :: os))
    | (.error e, s') =>
      let o' := { o with s := s' }
      if terminal ignore e then (.error e, o' :: os) else (.ok none, o' :: os)

/-- the result of a run as a caller sees it -/
structure Run where
  out : List Val
  err : Option Err
  /-- per operator: the arguments of its successful `write` calls, in order -/
  logs : List (List (List Val × List (String × Val)))

/-- The reference evaluation of a chain over the outcomes of the data source (per element: the
element, or the error reading it raised): record after record through the whole chain.  With
skipping off the first error ends the stream; with skipping on, elements whose reading or
processing raises a skippable error are left out and nothing else changes. -/
def run (ignore : Bool) : List OpSt → List (Ev Val) → Run
  | st, [] => { out := [], err := none, logs := st.map (·.log) }
  | st, .error e :: rest =>
    if terminal ignore e then { out := [], err := some e, logs := st.map (·.log) }
    else run ignore st rest
  | st, .ok r :: rest =>
    match push ignore st r with
    | (.ok (some x), st') => let t := run ignore st' rest; { t with out := x :: t.out }
    | (.ok none, st') => run ignore st' rest
    | (.error e, st') => { out := [], err := some e, logs := st'.map (·.log) }

def chain (ignore : Bool) (ops : List Op) (src : List (Ev Val)) : Run :=
  run ignore (ops.map OpSt.init) src

end Ref

/-! ## Implementation model

Every iterator of the implementation is represented by its event list (`Iter.Ev`), each event
annotated with `used`: how many events of the operator's *source* iterator had been consumed when
it was produced (`len + 1`: the source's `StopIteration` was consumed too).  The annotation is what
`_TeeIterator` needs: its buffer holds the records handed out and not yet re-read. -/
namespace Impl

structure AEv (β : Type) where
  ev : Ev β
  used : Nat

structure AStream (β : Type) where
  evs : List (AEv β)
  /-- `used` once the iterator has answered `StopIteration` -/
  endUsed : Nat

/-- the source iterator of an operator, seen through `_TeeIterator.__next__` / `iter()` -/
def annot : Nat → List (Ev Val) → List (AEv Val)
  | _, [] => []
  | n, e :: rest => ⟨e, n + 1⟩ :: annot (n + 1) rest

/-- When `true` the repaired `processed_with_inputs` is modelled (finding F-C12-passed-on): with
`ignore_error` the input iterator is wrapped in `iter_ignore_error` *before* it is teed
(`input_iterator = iter_ignore_error(input_iterator)`), so a skippable error raised by the input
iterator itself — a failing element of the data source, the unguarded output routing of the previous
operator — is skipped there and never reaches `process_fn`.  The unrepaired code let it surface from
`process_fn` as a `_SKIP` marker, whose `zip` partner was an input that had never been recorded:
`IndexError('No element left')` (`pwi`, third clause). -/
def passedOnFixed : Bool := true

/-- the source iterator of an `assign` / `filter` / `sink`, seen through `_TeeIterator.__next__` over
`iter_ignore_error(input_iterator)` (`skip`: the wrapper is there).  `iter_ignore_error` without an
`error_return` reads on after a skippable error, so one `next()` of the tee may consume several events of
the source; `used` keeps counting events of the *raw* source.  A non-skippable error finalises the
wrapper (a generator), which is immaterial: nothing after a terminal error is ever requested. -/
def annotSkip (skip : Bool) : Nat → List (Ev Val) → List (AEv Val)
  | _, [] => []
  | n, .ok r :: rest => ⟨.ok r, n + 1⟩ :: annotSkip skip (n + 1) rest
  | n, .error e :: rest =>
    if skip && e.ignorable then annotSkip skip (n + 1) rest
    else ⟨.error e, n + 1⟩ :: annotSkip skip (n + 1) rest

/-- built-in `map` (resumable) -/
def aMap {α β : Type} (f : α → Ev β) : List (AEv α) → List (AEv β)
  | [] => []
  | ⟨.ok a, u⟩ :: rest => ⟨f a, u⟩ :: aMap f rest
  | ⟨.error e, u⟩ :: rest => ⟨.error e, u⟩ :: aMap f rest

/-- nothing after a terminal error is ever requested (`Iter.terminal`) -/
def aCut {β : Type} (ignore : Bool) : List (AEv β) → List (AEv β)
  | [] => []
  | ⟨.ok a, u⟩ :: rest => ⟨.ok a, u⟩ :: aCut ignore rest
  | ⟨.error e, u⟩ :: rest =>
    if terminal ignore e then [⟨.error e, u⟩] else ⟨.error e, u⟩ :: aCut ignore rest

/-- `map(self._maybe_call_fn, fn_inputs)`: the function's state is threaded through the calls -/
def callLayer (op : Op) : Nat → List (AEv (List Val)) → List (AEv Val)
  | _, [] => []
  | s, ⟨.ok ins, u⟩ :: rest => let (r, s') := callFn op s ins; ⟨r, u⟩ :: callLayer op s' rest
  | s, ⟨.error e, u⟩ :: rest => ⟨.error e, u⟩ :: callLayer op s rest

/-- `iter_ignore_error(it)` without `error_return` (`map_ignore_error`): skippable errors vanish;
a terminal one ends the list anyway (`aCut`) -/
def dropIgnorable {β : Type} : List (AEv β) → List (AEv β)
  | [] => []
  | ⟨.ok a, u⟩ :: rest => ⟨.ok a, u⟩ :: dropIgnorable rest
  | ⟨.error e, u⟩ :: rest => if e.ignorable then dropIgnorable rest else ⟨.error e, u⟩ :: dropIgnorable rest

/-- a column of a batch as `rebatched_args` sees it (`_batch_size`, `_concat`): lists and tuples;
anything else has no usable `len()` / slicing (`TypeError`) -/
def toCol : Val → Except ErrKind (Rebatch.Col Val)
  | .list xs => .ok ⟨.list, xs⟩
  | .tuple xs => .ok ⟨.tuple, xs⟩
  | _ => .error .type

def ofCol (c : Rebatch.Col Val) : Val :=
  match c.kind with
  | .tuple => .tuple c.rows
  | _ => .list c.rows

/-- `rebatched_args(tuples, batch_size=target, num_columns=ncols)` as a **generator** over an
annotated event list (iter_utils.py:1315–1374; the buffer logic is `Rebatch.step` / `Rebatch.finish`,
property C19).  An exception of the source passes through the generator and finalises it: the
buffered rows and everything after are gone.  `ncols = 0`: deduced from the first batch. -/
def rebatchGen (target : Nat) : Nat → Rebatch.St Val → List (AEv (List Val)) → Nat → AStream (List Val)
  | _, st, [], endUsed =>
    match Rebatch.finish target none st with
    | .ok outs => ⟨outs.map fun b => ⟨.ok (b.map ofCol), endUsed⟩, endUsed⟩
    | .error k => ⟨[⟨.error { kind := k }, endUsed⟩], endUsed⟩
  | _, _, ⟨.error e, u⟩ :: _, _ => ⟨[⟨.error e, u⟩], u⟩
  | ncols, st, ⟨.ok cols, u⟩ :: rest, endUsed =>
    let (ncols, st) := if ncols = 0 then (cols.length, Rebatch.St.init cols.length) else (ncols, st)
    -- 'Mismatched columns' is checked before `_batch_size(column)` looks at the columns
    match (if cols.length != ncols then .error .value else cols.mapM toCol) >>= Rebatch.step target ncols none st with
    | .ok (st', outs) =>
      let r := rebatchGen target ncols st' rest endUsed
      ⟨(outs.map fun b => ⟨.ok (b.map ofCol), u⟩) ++ r.evs, r.endUsed⟩
    | .error k => ⟨[⟨.error { kind := k }, u⟩], u⟩

def maybeRebatch (target ncols : Nat) (s : AStream (List Val)) : AStream (List Val) :=
  if target = 0 then s else rebatchGen target ncols (Rebatch.St.init ncols) s.evs s.endUsed

/-- `TreeFn._iterate(input_iterator, ignore_error)` (tree_fns.py:233–254):
```
fn_inputs = map(self._get_inputs, input_iterator)
if self.fn_batch_size: fn_inputs = rebatched_args(fn_inputs, self.fn_batch_size, num_columns=self._num_inputs)
map_ = map_ignore_error if ignore_error else map
fn_outputs = map_(self._maybe_call_fn, fn_inputs)
fn_outputs = map(self._normalize_outputs, fn_outputs)
if self.batch_size: fn_outputs = rebatched_args(fn_outputs, self.batch_size, num_columns=self._num_outputs)
```
`guard`: the `ignore_error` argument.  The layers are causal (an output depends on the inputs before
it only), so the rule "nothing after a terminal error is ever requested" is applied once, to the
operator's source and to its output (`opIterate`). -/
def iterate (guard : Bool) (op : Op) (src : AStream Val) : AStream (List Val) :=
  let l1 := aMap (fun r => liftErr (getInputs op r)) src.evs
  let l2 := maybeRebatch op.fnBatch op.inKeys.length ⟨l1, src.endUsed⟩
  let l3 := callLayer op op.s0 l2.evs
  let l3 := if guard then dropIgnorable l3 else l3
  let l4 := aMap (fun v => liftErr (normalizeOutputs op v)) l3
  maybeRebatch op.batch op.outKeys.length ⟨l4, l2.endUsed⟩

def countOk : List (Ev Val) → Nat
  | [] => 0
  | .ok _ :: rest => countOk rest + 1
  | .error _ :: rest => countOk rest

/-- `processed_with_inputs(process_fn, input_iterator, ignore_error)` (iter_utils.py:1285–1311):
```
if ignore_error: input_iterator = iter_ignore_error(input_iterator)     # repaired, F-C12-passed-on: `annotSkip`
iter_input = _TeeIterator(input_iterator)
iter_output = process_fn(iter_input)
if ignore_error:
  iter_output = iter_ignore_error(iter_output, error_return=_SKIP)
  return ((o, i) for o, i in zip(iter_output, iter_input.tee()) if o is not _SKIP)
return zip(iter_output, iter_input.tee())
```
`src`: the events of the raw `input_iterator` (the tee buffers its successful reads only, with or
without the wrapper); `outs`: the events of `process_fn(iter_input)`;
`popped`: how many records `tee()` has re-read.  After each output (or `_SKIP`) `zip` asks
`tee()` for one record: the oldest buffered one; if the buffer is empty `tee()` ends the `zip`
when the source is exhausted and raises `IndexError('No element left')` otherwise. -/
def pwi (skip : Bool) (src : List (Ev Val)) : Nat → List (AEv (List Val)) → List (AEv (List Val × Val))
  | _, [] => []
  | popped, ⟨.error e, u⟩ :: rest =>
    if skip && e.ignorable then
      -- the `_SKIP` marker takes one record off the buffer
      if popped < countOk (src.take u) then pwi skip src (popped + 1) rest
      else if u > src.length then []
      else [⟨.error { kind := .index }, u⟩]
    else [⟨.error e, u⟩]
  | popped, ⟨.ok o, u⟩ :: rest =>
    if popped < countOk (src.take u) then
      ⟨.ok (o, (oks src).getD popped .none), u⟩ :: pwi skip src (popped + 1) rest
    else if u > src.length then []
    else [⟨.error { kind := .index }, u⟩]

/-- `used` after the last event of a list (0 for none) -/
def lastUsed {β : Type} : List (AEv β) → Nat
  | [] => 0
  | [e] => e.used
  | _ :: rest => lastUsed rest

/-- did the list end with an error event (the iterator behind it is finalised or abandoned) -/
def endsInError {β : Type} : List (AEv β) → Bool
  | [] => false
  | [⟨.error _, _⟩] => true
  | [_] => false
  | _ :: rest => endsInError rest

/-- When `true` the repaired `FilterFn.iterate` is modelled: it hands `ignore_error` to
`processed_with_inputs` like `Assign` and `Sink` do (finding F17). -/
def f17Fixed : Bool := true

/-- the generator expression of `FilterFn.iterate`: `(elem for (value,), elem in it_ if value)` -/
def filterGen : List (AEv (List Val × Val)) → List (AEv Val)
  | [] => []
  | ⟨.ok ([v], r), u⟩ :: rest => if v.truthy then ⟨.ok r, u⟩ :: filterGen rest else filterGen rest
  | ⟨.ok (_, _), u⟩ :: _ => [⟨.error { kind := .value }, u⟩]     -- `(value,) = outputs` does not unpack
  | ⟨.error e, u⟩ :: _ => [⟨.error e, u⟩]

/-- `fn.iterate(input_iterator)` for the four operator classes (tree_fns.py:256–262, 277–305,
348–357), `ignore_error` already `dataclasses.replace`d into `fn` by the runner. -/
def opIterate (ignore : Bool) (op : Op) (srcEvs : List (Ev Val)) : AStream Val :=
  -- nothing after a terminal error of the source is ever requested
  let srcC := cutTerminal ignore srcEvs
  let src : AStream Val := ⟨annot 0 srcC, srcC.length + 1⟩
  -- the source behind `processed_with_inputs`' `iter_ignore_error` wrapper
  let srcT (skip : Bool) : AStream Val := ⟨annotSkip (skip && passedOnFixed) 0 srcC, srcC.length + 1⟩
  let fin (evs : List (AEv Val)) (endUsed : Nat) : AStream Val :=
    let evs := aCut ignore evs
    ⟨evs, if endsInError evs then lastUsed evs else endUsed⟩
  match op.kind with
  | .select | .apply =>
    -- TreeFn.iterate: map(self._get_outputs, self._iterate(iter(it), ignore_error=self.ignore_error))
    let inner := iterate ignore op src
    fin (aMap (fun outs => liftErr (getOutputs op .null outs)) inner.evs) inner.endUsed
  | .assign =>
    -- it.starmap(self._get_outputs, processed_with_inputs(self._iterate, iter(it), ignore_error=...))
    let inner := iterate false op (srcT ignore)
    let paired := pwi ignore srcC 0 inner.evs
    fin (aMap (fun (outs, r) => liftErr (getOutputs op r outs)) paired) inner.endUsed
  | .filter =>
    let inner := iterate false op (srcT (ignore && f17Fixed))
    let paired := pwi (ignore && f17Fixed) srcC 0 inner.evs
    fin (filterGen paired) inner.endUsed
  | .sink =>
    -- try: yield from (elem for _, elem in processed_with_inputs(...)) finally: close()
    let inner := iterate false op (srcT ignore)
    let paired := pwi ignore srcC 0 inner.evs
    fin (aMap (fun (_, r) => .ok r) paired) inner.endUsed

/-- how much of an iterator its consumer took: `n` events, and whether it then also asked once
more and got `StopIteration` -/
structure Demand where
  n : Nat
  askedEnd : Bool

/-- how many events of the *source* an operator consumed to serve the demand -/
def usedFor {β : Type} (s : AStream β) (d : Demand) : Nat :=
  if d.askedEnd then s.endUsed else lastUsed (s.evs.take d.n)

def demandOn (srcLen used : Nat) : Demand := ⟨min used srcLen, decide (used > srcLen)⟩

/-- the successful `sink.write` calls for the first `used` source events (`Sink` has no batch
sizes: one call per record whose inputs could be read) -/
def sinkLog (op : Op) : Nat → List (Ev Val) → List (List Val × List (String × Val))
  | _, [] => []
  | s, .error _ :: rest => sinkLog op s rest
  | s, .ok r :: rest =>
    match getInputs op r with
    | .error _ => sinkLog op s rest
    | .ok ins =>
      match callFn op s ins with
      | (.ok _, s') =>
        (if op.argNames.isEmpty then (ins, []) else ([], op.argNames.zip ins)) :: sinkLog op s' rest
      | (.error _, s') => sinkLog op s' rest

structure Run where
  out : List Val
  err : Option Err
  /-- per operator: successful `write` calls (empty for operators that are not sinks) -/
  logs : List (List (List Val × List (String × Val)))
  /-- per sink: how often `close()` was called -/
  closed : List Nat

/-- the streams between the operators: `_RunnerIterator.iter_fn` folds `fn.iterate` over the
operators (transform.py:136–144) -/
def streams (ignore : Bool) : List Op → List (Ev Val) → List (List (Ev Val) × Op × AStream Val)
  | [], _ => []
  | op :: ops, src =>
    let s := opIterate ignore op src
    (src, op, s) :: streams ignore ops (s.evs.map (·.ev))

/-- walk back from the caller's demand to the demand on every operator's source -/
def backDemand : List (List (Ev Val) × Op × AStream Val) → Demand → List (Nat × List (Ev Val) × Op)
  | [], _ => []
  | (src, op, s) :: rest, d =>
    let used := usedFor s d
    (used, src, op) :: backDemand rest (demandOn src.length used)

/-- the events of the runner's iterator: `_RunnerIterator.iter_fn` folds `fn.iterate` over the
operators (transform.py:136–144) -/
def topEvents (ignore : Bool) : List Op → List (Ev Val) → List (Ev Val)
  | [], src => cutTerminal ignore src
  | op :: ops, src => topEvents ignore ops ((opIterate ignore op src).evs.map (·.ev))

/-- `list(pipeline.make().iterate(data, ignore_error=ignore))`, then dropping the iterator -/
def run (ignore : Bool) (ops : List Op) (src : List (Ev Val)) : Run :=
  let top := topEvents ignore ops src
  let (out, err) := observe top
  let d : Demand := match err with
    | some _ => ⟨out.length + 1, false⟩
    | none => ⟨top.length, true⟩
  let back := (backDemand (streams ignore ops src).reverse d).reverse
  { out := out, err := err,
    logs := back.map fun (used, src, op) =>
      if op.kind = .sink then sinkLog op op.s0 (src.take used) else [],
    -- every `Sink.iterate` generator has been started by the first `next()`; its `finally` runs
    -- when it ends, when an exception passes through it, or when it is dropped
    closed := (ops.filter fun op => op.kind = .sink).map fun _ => 1 }

/-! ### The pipeline iterator as an OBJECT (`num_threads = 0`): what it does after the first error

```
def iter_fn(input_iterator=()):                      # transform.py:136–144
  result = input_iterator
  for fn in self._runner.fns:
    result = fn.iterate(result)
  yield from result                                  # iter_fn is a GENERATOR FUNCTION
```
`MultiplexIterator.__next__` calls `next()` of the generator object that `iter_fn(...)` returned.  The
chain `result` itself is built from C-implemented `map` / `zip` / `itertools` objects (resumable) and
generators (`Sink.iterate`, `FilterFn`, `iter_ignore_error`, …) and lives ONLY in the frame of that
generator object.  An exception that leaves the chain passes through `yield from` and FINALISES the
generator (`Iter.genNext`): its frame is released, the chain is dropped, every `Sink.iterate` generator
that is still suspended runs its `finally: close()` as soon as nothing refers to the exception any more
(reference counting: trusted base), and every later `next()` answers `StopIteration`. -/

/-- state of the pipeline iterator object: the events its chain has still to deliver; `none` = the
generator is finalised -/
abbrev PipeIt := Option (List (Ev Val))

/-- one `next()` of the pipeline iterator: the generator object around the chain -/
def pipeNext : PipeIt → Step Val PipeIt := genNext cursorNext

/-- the seeded alternative (`return iter(result)`): the BARE chain, whose outermost object is a
resumable `map` / `zip` when the last operator is an `apply` / `assign` / `select` -/
def bareNext : List (Ev Val) → Step Val (List (Ev Val)) := cursorNext

/-- what the caller sees who goes on after the first error -/
structure Post where
  /-- what each of the `k` further `next()` calls did (`none` = `StopIteration`) -/
  calls : List (Option (Ev Val))
  /-- per sink: `close()` calls so far, read after the error was handled and released, the iterator
  object still alive -/
  closedAtError : List Nat
  /-- per sink: `close()` calls after the `k` further calls -/
  closedAfter : List Nat

/-- `close()` calls per sink once the generator object is finalised: every `Sink.iterate` generator was
started by the first `next()`; it has ended, or the exception passed through it, or it was dropped with
the frame — in each case its `finally` ran exactly once.  While the generator object is alive and
suspended nothing can be said from the state alone (`none`). -/
def closedOf (ops : List Op) : PipeIt → Option (List Nat)
  | none => some ((ops.filter fun op => op.kind = .sink).map fun _ => 1)
  | some _ => none

/-- `for x in it: …` until the first error, then `k` more `next()` calls on the same iterator object;
`none` when no error reaches the caller -/
def runPost (ignore : Bool) (ops : List Op) (src : List (Ev Val)) (k : Nat) : Option Post :=
  let top := topEvents ignore ops src
  match consume pipeNext (top.length + 1) (some top) with
  | (_, none, _) => none
  | (_, some _, st) =>
    let r := calls pipeNext k st
    some { calls := r.1, closedAtError := (closedOf ops st).getD [], closedAfter := (closedOf ops r.2).getD [] }

end Impl

/-! ## Reference semantics of `apply` / `select` **with batch sizes**

A record of a batched operator carries *columns*: the value under every input key is a `list` /
`tuple` of rows, all equally long; row `i` of the record is the tuple of the `i`-th elements.
`fn_batch_size = fb` asks that the function be called on groups of `fb` consecutive rows (columns of
`fb` rows; the last group may be shorter) instead of on the incoming records; `batch_size = b` asks
that the rows of the function's results be delivered as records of `b` rows.  So **the value under
an output key is a column of `b` rows**: the rows of that output of the function, in stream order,
cut into pieces of `b`.

The reference evaluates the *whole stream* in four steps on plain lists — no generators, no
laziness.  Every intermediate result is a pair `(values, error)`: the values that exist, and the
error (if any) after which nothing more exists.  The regrouping steps are the list-level model of
property C19 (`Rebatch.run`: conservation, order, alignment, sizes are `C19_conserve` … `C19_count`;
`Rebatch.online`: the complete groups that exist when the stream breaks off, `C19_online`). -/
namespace Ref

/-- a value as a column of rows -/
def asCol : Val → Rebatch.Col Val
  | .list xs => ⟨.list, xs⟩
  | .tuple xs => ⟨.tuple, xs⟩
  | _ => ⟨.other, []⟩

/-- a tuple of values as a batch of columns -/
def asBatch (cols : List Val) : Rebatch.Batch Val := cols.map asCol

def ofBatch (b : Rebatch.Batch Val) : List Val := b.map Impl.ofCol

/-- a stream as a list of events again -/
def unobserve {α : Type} (p : List α × Option Err) : List (Ev α) :=
  p.1.map .ok ++ (match p.2 with | some e => [.error e] | none => [])

/-- **regrouping** the rows of the column batches `p.1` into batches of `t` rows (`t = 0`: the
batches stay as they are).  If the stream ended normally: all rows, the last batch possibly
shorter (`Rebatch.run`).  If it broke off with an error: only the complete batches
(`Rebatch.online`), then that error. -/
def regroup (t nc : Nat) (p : List (List Val) × Option Err) : List (List Val) × Option Err :=
  if t = 0 then p
  else match p.2 with
    | none =>
      let r := Rebatch.run t nc none (p.1.map asBatch)
      (r.out.map ofBatch, r.err.map fun k => { kind := k })
    | some e => ((Rebatch.online t nc none (p.1.map asBatch)).map ofBatch, some e)

/-- **calling** the function on the groups in order (its private state is threaded).  A group whose
call succeeds contributes the (normalised) tuple of output columns.  A call that raises: with
skipping on the group — all its rows — is left out and nothing else changes; with skipping off the
error ends the stream.  `tail`: the error the incoming stream of groups ended with. -/
def callGroups (ignore : Bool) (op : Op) (tail : Option Err) :
    Nat → List (List Val) → List (List Val) × Option Err
  | _, [] => ([], tail)
  | s, g :: gs =>
    match callFn op s g with
    | (.ok v, s') => let r := callGroups ignore op tail s' gs; (normOuts op v :: r.1, r.2)
    | (.error e, s') => if terminal ignore e then ([], some e) else callGroups ignore op tail s' gs

/-- with skipping on, an element that raised a skippable error is left out (every remaining error is
terminal; with skipping off nothing changes) -/
def skipNT {α : Type} (ignore : Bool) : List (Ev α) → List (Ev α)
  | [] => []
  | .ok a :: rest => .ok a :: skipNT ignore rest
  | .error e :: rest => if terminal ignore e then .error e :: skipNT ignore rest else skipNT ignore rest

/-- **The reference for a chain over ANY source** (no `Clean` condition): every operator skips the
skippable errors that are passed on to it — failing reads of the data source in front of the first
operator, skippable errors of the previous operator's output routing in front of the others — and
processes what is left record by record (`opEvents`).  What the last operator passes on reaches the
caller (`cutTerminal`: the runner's own iterator is a generator, any error ends it). -/
def chainEventsS (ignore : Bool) : List Op → List (Ev Val) → List (Ev Val)
  | [], evs => cutTerminal ignore evs
  | op :: ops, evs => chainEventsS ignore ops (opEvents ignore op op.s0 (skipNT ignore evs))

/-- the (normalised) results of the calls of one operator, record by record (`semCall`, the function's
state threaded), up to the first error — a failing read of the source or a failing call -/
def callOuts (op : Op) : Nat → List (Ev Val) → List (Ev (List Val))
  | _, [] => []
  | _, .error e :: _ => [.error e]
  | s, .ok r :: rest =>
    match semCall op s r with
    | (.ok v, s') => .ok (normOuts op v) :: callOuts op s' rest
    | (.error e, _) => [.error e]

/-- a tuple of `nc` columns (`list` / `tuple`) of exactly `r` rows each -/
def fullColsB (nc r : Nat) (cols : List Val) : Bool :=
  cols.length == nc &&
  cols.all fun c => match c with
    | .list xs => xs.length == r
    | .tuple xs => xs.length == r
    | _ => false

/-- the number of rows of the first column -/
def rowsOfCols (cols : List Val) : Nat := (asCol (cols.headD .none)).rows.length

/-- Boolean form of `AlignedCalls` (`Lemmas/PipeAligned.lean`): every call result has exactly `t` rows,
the last of a stream that ends normally `1..t`; the error the stream breaks off with ends the run -/
def alignedCallsB (ignore : Bool) (t nc : Nat) : List (Ev (List Val)) → Bool
  | [] => true
  | .error e :: _ => terminal ignore e
  | [.ok cols] => decide (0 < rowsOfCols cols) && decide (rowsOfCols cols ≤ t) && fullColsB nc (rowsOfCols cols) cols
  | .ok cols :: y :: ys => fullColsB nc t cols && alignedCallsB ignore t nc (y :: ys)

/-- `SelfAlone` (`Lemmas/Pipe.lean`) as a Boolean -/
def selfAloneB (op : Op) : Bool :=
  match op.outKeys with
  | k :: _ :: _ => !k.isSelf
  | _ => true

/-- Boolean form of `AssignAlignedOK` -/
def assignAlignedOKB (ignore : Bool) (op : Op) (src : List (Ev Val)) : Bool :=
  op.kind == .assign && op.fnBatch == 0 && decide (0 < op.batch) && decide (0 < op.outKeys.length) &&
  selfAloneB op && alignedCallsB ignore op.batch op.outKeys.length (callOuts op op.s0 (skipNT ignore src))

/-- Boolean form of `RunOKA` up to `OpOK.pred` (a predicate never returns a tuple: not decidable) -/
def runOKAB (ignore : Bool) : List Op → List (Ev Val) → Bool
  | [], _ => true
  | op :: ops, evs =>
    ((op.fnBatch == 0 && op.batch == 0 && selfAloneB op) || assignAlignedOKB ignore op evs) &&
    runOKAB ignore ops (opEvents ignore op op.s0 (skipNT ignore evs))

/-- the four steps up to the regrouped output columns -/
def batchedCols (ignore : Bool) (op : Op) (s : Nat) (src : List (Ev Val)) :
    List (List Val) × Option Err :=
  -- 1. the input columns of the records, up to the first error that ends the stream; with skipping
  --    on, a record whose inputs cannot be read with a skippable error is left out
  let p1 := observe (skipNT ignore (mapEv (fun r => liftErr (getInputs op r)) src))
  -- 2. groups of `fn_batch_size` rows
  let p2 := regroup op.fnBatch op.inKeys.length p1
  -- 3. one call per group
  let p3 := callGroups ignore op p2.2 s p2.1
  -- 4. batches of `batch_size` rows
  regroup op.batch op.outKeys.length p3

/-- **The reference for an `apply` / `select` with batch sizes** (`sem` for a whole stream): every
regrouped tuple of output columns becomes a new record, built from nothing exactly as an un-batched
`apply` routes a function result `(col₁, …, colₙ)` (`Ref.write`); then the error, if any. -/
def opEventsB (ignore : Bool) (op : Op) (s : Nat) (src : List (Ev Val)) : List (Ev Val) :=
  let p := batchedCols ignore op s src
  cutTerminal ignore
    (p.1.map (fun cols => liftErr (write op .null (.tuple cols))) ++ unobserve (α := Val) ([], p.2))

/-- the reference for one operator of any kind the theorems cover: operators without batch sizes
record by record (`opEvents`), `apply` / `select` with batch sizes over the whole stream -/
def opEventsG (ignore : Bool) (op : Op) (s : Nat) (src : List (Ev Val)) : List (Ev Val) :=
  if op.fnBatch = 0 ∧ op.batch = 0 then opEvents ignore op s src else opEventsB ignore op s src

def chainEventsG (ignore : Bool) : List Op → List (Ev Val) → List (Ev Val)
  | [], evs => cutTerminal ignore evs
  | op :: ops, evs => chainEventsG ignore ops (opEventsG ignore op op.s0 evs)

/-- Boolean form of "these tuples are batches of `nc` equally long `list` / `tuple` columns" -/
def rectB (nc : Nat) (vs : List (List Val)) : Bool :=
  vs.all fun cols =>
    cols.length == nc &&
    cols.all fun c =>
      (match c with | .list _ => true | .tuple _ => true | _ => false) &&
      (asCol c).rows.length == (asCol (cols.headD .none)).rows.length

/-- every error of the stream is terminal, as a Boolean (any element type) -/
def cleanLB {α : Type} (ignore : Bool) (evs : List (Ev α)) : Bool :=
  evs.all fun ev => match ev with | .error e => terminal ignore e | .ok _ => true

/-- Boolean form of the side conditions of the batched refinement for one operator (see
`Lemmas/PipeBatch.lean: BatchedOK`) -/
def batchedOKB (ignore : Bool) (op : Op) (s : Nat) (src : List (Ev Val)) : Bool :=
  let l1 := mapEv (fun r => liftErr (getInputs op r)) src
  let p1 := observe (skipNT ignore l1)
  let p2 := regroup op.fnBatch op.inKeys.length p1
  let p3 := callGroups ignore op p2.2 s p2.1
  cleanB ignore src && decide (0 < op.batch) && decide (0 < op.outKeys.length) &&
  (op.fnBatch == 0 || (cleanLB ignore l1 && decide (0 < op.inKeys.length) && rectB op.inKeys.length p1.1)) &&
  rectB op.outKeys.length p3.1

def runOKB (ignore : Bool) : List Op → List (Ev Val) → Bool
  | [], evs => cleanB ignore evs
  | op :: ops, evs =>
    (if op.fnBatch = 0 ∧ op.batch = 0 then cleanB ignore evs
     else (op.kind == .apply || op.kind == .select) && batchedOKB ignore op op.s0 evs) &&
    runOKB ignore ops (opEventsG ignore op op.s0 evs)

end Ref

/-! ## The builder (`TreeTransform.select/apply/assign/filter/batch/sink/aggregate`, transform.py:894–1155)

`Except` at construction: what `TreeFn.__post_init__` and the builder methods raise. -/
namespace Build

/-- the shapes a user may give for `input_keys` -/
inductive InSpec where
  | single (k : Key)
  | many (ks : List Key)
  | kwargs (items : List (String × Key))        -- a dict `{argument_name: key}`

/-- the shapes a user may give for `output_keys` / `assign_keys` -/
inductive OutSpec where
  | single (k : OutKey)
  | many (ks : List OutKey)

/-- `tree.normalize_keys` + the split of dict input keys (tree_fns.py:97–107) -/
def InSpec.normalize : InSpec → List String × List Key
  | .single k => ([], [k])
  | .many ks => ([], ks)
  | .kwargs items => (items.map (·.1), items.map (·.2))

def OutSpec.normalize : OutSpec → List OutKey
  | .single k => [k]
  | .many ks => ks

/-- `input_keys` reused as `output_keys` (`select`: `output_keys or input_keys`) -/
def InSpec.asOut : InSpec → OutSpec
  | .single k => .single (.key k)
  | .many ks => .many (ks.map .key)
  | .kwargs items => .single (.dict (items.map fun (n, k) => (Key.name n, k)))

def InSpec.isEmpty : InSpec → Bool
  | .many [] => true
  | .kwargs [] => true
  | _ => false

/-- When `true` the repaired builder is modelled (`transform._no_keys`, finding F-C08-index0):
`Key.Index(0)` (the int `0`) and `''` are keys; the unrepaired `assign_keys or output_keys` /
`output_keys or input_keys` treated them as "no key given". -/
def index0Fixed : Bool := true

/-- "no key was given" (`transform._no_keys`): an empty tuple, an empty dict -/
def OutSpec.isEmpty : OutSpec → Bool
  | .many [] => true
  | .single (.dict []) => true
  | .single (.key (.index 0)) => !index0Fixed
  | .single (.key (.name "")) => !index0Fixed
  | _ => false

/-- one builder call -/
inductive Spec where
  | select (input : InSpec) (output : Option OutSpec) (batch : Nat)
  | apply (fn : Option UFn) (s0 : Nat) (input : InSpec) (output : OutSpec) (fnBatch batch : Nat)
  | assign (keys : OutSpec) (fn : Option UFn) (s0 : Nat) (input : InSpec) (fnBatch batch : Nat)
  | filter (fn : UFn) (s0 : Nat) (input : InSpec)
  | batch (n : Nat)
  | sink (isSink : Bool) (write : UFn) (s0 : Nat) (input : InSpec)
  | aggregate (hasFn : Bool) (output : OutSpec)

/-- Python `==` / `hash` on the keys a user can put into `output_keys` (as far as the
correspondence uses them): a bare string differs from a `Key` path; `Literal`s are compared by
identity, i.e. never equal. -/
def keyEq : Key → Key → Bool
  | .name a, .name b => a == b
  | .index a, .index b => a == b
  | .path a, .path b => a == b
  | .self, .self => true
  | .skip, .skip => true
  | _, _ => false

def insertKey (k : Key) (ks : List Key) : List Key :=
  if ks.any (keyEq k) then ks else ks ++ [k]

/-- `itertools.chain(non_dict_keys, *dict_keys)`: a dict output key contributes its *keys* — the
record keys that are written — never its values (the names read in the function's output) -/
def flatKeys : List OutKey → List Key
  | [] => []
  | .key k :: rest => k :: flatKeys rest
  | .dict items :: rest => items.map (·.1) ++ flatKeys rest

/-- `TreeTransform.output_keys` (transform.py:905–922, repaired): the keys that exist after the
operators so far; `apply` and `select` replace the record and start afresh, a sink contributes
nothing, `SKIP` is not a key -/
def outputKeys (fns : List Op) : List Key :=
  (fns.foldl (fun acc fn =>
    if fn.kind = .sink then acc               -- a sink forwards its inputs unchanged
    else
      let acc := if fn.kind = .apply || fn.kind = .select then [] else acc
      (flatKeys fn.outKeys).foldl (fun a k => insertKey k a) acc) []).filter fun k => !keyEq k .skip

/-- `_check_assign_keys` (transform.py:927–947) -/
def checkAssignKeys (assignKeys : List OutKey) (existing : List Key) : Except ErrKind Unit :=
  let new := (flatKeys assignKeys).foldl (fun a k => insertKey k a) []
  if new.any (fun k => existing.any (keyEq k)) then .error .key        -- 'Duplicate output_keys'
  else
    let all := new.foldl (fun a k => insertKey k a) existing
    if all.any (keyEq .self) && all.length > 1 then .error .key       -- 'Cannot mix SELF with other keys'
    else .ok ()

/-- `TreeFn.__post_init__` (tree_fns.py:86–113) -/
def mkTreeFn (kind : OpKind) (fn : Option UFn) (s0 : Nat) (input : InSpec) (output : List OutKey)
    (fnBatch batch : Nat) : Except ErrKind Op := do
  if fnBatch != 0 && batch == 0 then throw .value                     -- 'fn_batch_size should be used with batch_size'
  let (argNames, inKeys) := input.normalize
  if fn.isNone && !argNames.isEmpty then throw .value                 -- 'Select Op cannot have kwargs'
  -- (repaired) 'SKIP cannot be used as an input key', 'Literal cannot be used as an output key'
  if inKeys.any (fun k => match k with | .skip => true | _ => false) then throw .value
  if output.any (fun k => match k with | .key (.lit _) => true | _ => false) then throw .value
  return { kind := kind, inKeys := inKeys, argNames := argNames, outKeys := output,
           fn := fn.getD identityFn, s0 := s0, fnBatch := fnBatch, batch := batch }

/-- the function `batch()` applies: `lambda *args: tuple([arg] for arg in args)` -/
def wrapEach : UFn := fun s args _ => (.ok (.tuple (args.map fun a => .list [a])), s)

structure St where
  fns : List Op := []
  /-- `agg_fns` is non-empty -/
  hasAgg : Bool := false
  aggKeys : List Key := []

/-- `_maybe_new_transform` (transform.py:1129–1137) -/
def St.add (st : St) (fn : Op) : Except ErrKind St :=
  if st.hasAgg then .error .value                                     -- 'Aggregation has to be the last node'
  else .ok { st with fns := st.fns ++ [fn] }

def step (st : St) : Spec → Except ErrKind St
  | .select input output batch => do
    -- `if _no_keys(output_keys): output_keys = input_keys`
    let out := match output with
      | some o => if o.isEmpty then input.asOut else o
      | none => input.asOut
    let fn ← mkTreeFn .select none 0 input out.normalize 0 batch
    st.add fn
  | .apply fn s0 input output fnBatch batch => do
    let fn ← mkTreeFn .apply fn s0 input output.normalize fnBatch batch
    st.add fn
  | .assign keys fn s0 input fnBatch batch => do
    -- `if _no_keys(assign_keys): assign_keys = output_keys` (= `()`)
    let keys := if keys.isEmpty then OutSpec.many [] else keys
    let fn ← mkTreeFn .assign fn s0 input keys.normalize fnBatch batch
    if fn.outKeys.isEmpty then throw .value                            -- 'Assign should have output_keys'
    checkAssignKeys fn.outKeys (outputKeys st.fns)
    st.add fn
  | .filter fn s0 input => do
    -- `output_keys=tuple(self.output_keys)`: only book-keeping for the builder
    let fn ← mkTreeFn .filter (some fn) s0 input ((outputKeys st.fns).map .key) 0 0
    st.add fn
  | .batch n => do
    -- `keys = tuple(self.output_keys) or Key.SELF`
    let ks := outputKeys st.fns
    let (inp, out) : InSpec × List OutKey :=
      if ks.isEmpty then (.single .self, [.key .self]) else (.many ks, ks.map .key)
    let fn ← mkTreeFn .apply (some wrapEach) 0 inp out 0 n
    st.add fn
  | .sink isSink write s0 input => do
    let fn ← mkTreeFn .sink (some write) s0 input [.key .self] 0 0
    if !isSink then throw .type                                        -- 'The fn is not a sink'
    st.add fn
  | .aggregate hasFn output => do
    if st.hasAgg then throw .value                                     -- 'Cannot have more than one aggregations'
    if !hasFn then return st
    checkAssignKeys output.normalize st.aggKeys
    return { st with hasAgg := true, aggKeys := flatKeys output.normalize }

/-- the builder calls in order; the first rejection wins -/
def build : St → List Spec → Except ErrKind St
  | st, [] => .ok st
  | st, sp :: rest => do let st' ← step st sp; build st' rest

end Build

end MlModel.Pipe
