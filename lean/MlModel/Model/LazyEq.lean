/-!
# `LazyFn.__hash__` / `__eq__` and the look-up of the result cache, for arguments that are not hashable

`Model/Lazy.lean` keys the `LazyFn` cache structurally over hashable leaves.  This file models what that
abstraction leaves out (lazy_fns.py:453-467, func_utils.py:43-98):

* a cached call travels as pickled bytes, so the cache meets DISTINCT COPIES of one `LazyFn`: same `id`
  (`_id` is a dataclass field and is pickled), equal argument values, but fresh argument OBJECTS;
* an argument may be unhashable (list, dict, ndarray, a tuple holding one): `hash((value, args, kwargs))` raises
  `TypeError` and `__hash__` falls back to `hash(self.id)`;
* `==` between two argument values need not be a `bool`: for ndarrays of more than one element
  `bool(a == b)` raises "The truth value of an array with more than one element is ambiguous";
* CPython compares the elements of two tuples (and a stored dict key with the probe) by IDENTITY first
  (`PyObject_RichCompareBool`), and only then with `==`.

`LFn.eq` is `LazyFn.__eq__` as shipped (`self.id == other.id or (value, args, kwargs equal)`), `LFn.eqSig` the seeded
change C17-m6 (signature comparison only).  `ECache` is `func_utils.LruCache` over a dict whose probe
(`lookup`) follows CPython: same hash, then identity, then `__eq__`, which may raise.
-/
namespace MlModel.LazyEq

/-- argument values, by what `hash` and `==` do with them -/
inductive ArgV where
  /-- hashable, `==` is a bool (int, str, …) -/
  | int (n : Int)
  /-- a tuple of ints: hashable -/
  | tup (xs : List Int)
  /-- a list (or dict): unhashable, `==` is a bool -/
  | list (xs : List Int)
  /-- an ndarray: unhashable, `==` is elementwise and `bool()` of it raises unless it has exactly one element
  (an empty one is `False` with a deprecation warning) -/
  | arr (xs : List Int)
  /-- a tuple holding an ndarray: unhashable, `==` compares the arrays -/
  | tupArr (xs : List Int)
  /-- an object whose `==` has no truth value at all (`lib_c14.Amb`), unhashable -/
  | amb
  deriving DecidableEq, Repr, Inhabited

def ArgV.hashable : ArgV → Bool
  | .int _ | .tup _ => true
  | _ => false

/-- outcome of `bool(a == b)` -/
inductive Cmp where
  | true | false | raises
  deriving DecidableEq, Repr, Inhabited

def Cmp.ofBool (b : Bool) : Cmp := if b then .true else .false

/-- `bool(a == b)` for two ndarrays (equal shapes; different shapes broadcast or compare `False`) -/
def arrEq (xs ys : List Int) : Cmp :=
  if xs.length ≠ ys.length then .false
  else if xs.length = 1 then Cmp.ofBool (decide (xs = ys))
  else if xs.length = 0 then .false
  else .raises

/-- `bool(a == b)` on argument values -/
def ArgV.eq : ArgV → ArgV → Cmp
  | .int a, .int b => Cmp.ofBool (decide (a = b))
  | .tup a, .tup b => Cmp.ofBool (decide (a = b))
  | .list a, .list b => Cmp.ofBool (decide (a = b))
  | .arr a, .arr b => arrEq a b
  | .arr a, .list b => arrEq a b              -- (numpy broadcasts the list)
  | .list a, .arr b => arrEq a b
  | .tupArr a, .tupArr b => arrEq a b         -- (distinct array objects inside: `==` on them)
  | .amb, _ => .raises
  | _, .amb => .raises
  | _, _ => .false

/-- an argument OBJECT: its identity and its value -/
structure Arg where
  oid : Nat
  v : ArgV
  deriving DecidableEq, Repr, Inhabited

/-- `PyObject_RichCompareBool(a, b, Py_EQ)`: identity first -/
def Arg.richEq (a b : Arg) : Cmp := if a.oid = b.oid then .true else a.v.eq b.v

/-- `tuple.__eq__`: the first pair that is not equal decides; a raising comparison propagates -/
def argsEq : List Arg → List Arg → Cmp
  | [], [] => .true
  | a :: as, b :: bs =>
    match a.richEq b with
    | .true => argsEq as bs
    | c => c
  | _, _ => .false

/-- a `LazyFn` object: its own identity, the pickled `id`, the callable (by name: library callables travel by
reference) and the argument objects (kwargs are treated alike) -/
structure LFn where
  oid : Nat
  id : Nat
  fn : String
  args : List Arg
  deriving DecidableEq, Repr, Inhabited

/-- **`LazyFn.__eq__` as shipped** (lazy_fns.py:458-467): `self.id == other.id or (value == … and args == … and kwargs == …)` -/
def LFn.eq (a b : LFn) : Cmp :=
  if a.id = b.id then .true
  else if a.fn ≠ b.fn then .false
  else argsEq a.args b.args

/-- the seeded change C17-m6: `self._signature() == other._signature()` — no `id` short-circuit -/
def LFn.eqSig (a b : LFn) : Cmp :=
  if a.fn ≠ b.fn then .false else argsEq a.args b.args

/-- `LazyFn.__hash__` (453-457): the hash of the signature, or of the id when an argument is unhashable.  Modelled
as the value it is a function of (two signature hashes are equal iff the signatures are; a signature hash never equals
an id hash — 64-bit collisions are outside the model). -/
inductive HashV where
  | sig (fn : String) (vals : List ArgV)
  | byId (id : Nat)
  deriving DecidableEq, Repr, Inhabited

def LFn.hash (a : LFn) : HashV :=
  if a.args.all (·.v.hashable) then .sig a.fn (a.args.map (·.v)) else .byId a.id

/-- a copy of `a` as another `pickler.loads` of the same bytes produces it: same id, same callable, equal argument
values; every object is new -/
def IsCopy (a b : LFn) : Prop := b.id = a.id ∧ b.fn = a.fn ∧ b.args.map (·.v) = a.args.map (·.v)

/-! ## The dict probe and `LruCache` -/

/-- the probe of `OrderedDict` for key `k`: entries with another hash are skipped; same hash: identity, then
`stored.__eq__(k)`; the first match wins; a raising `__eq__` propagates.  Returns the index of the entry. -/
def lookup (eq : LFn → LFn → Cmp) : List (LFn × Nat) → LFn → Except Unit (Option Nat)
  | [], _ => .ok none
  | (e, _) :: rest, k =>
    if e.hash ≠ k.hash then (lookup eq rest k).map (·.map (· + 1))
    else if e.oid = k.oid then .ok (some 0)
    else
      match eq e k with
      | .true => .ok (some 0)
      | .false => (lookup eq rest k).map (·.map (· + 1))
      | .raises => .error ()

/-- `func_utils.LruCache` (43-98) with `LazyFn` keys and result objects named by a number -/
structure ECache where
  maxsize : Nat
  data : List (LFn × Nat) := []
  hits : Nat := 0
  misses : Nat := 0
  deriving DecidableEq, Repr, Inhabited

/-- `__getitem__` (70-78): `key in data`, `data[key]`, `move_to_end(key)` -/
def ECache.get (eq : LFn → LFn → Cmp) (c : ECache) (k : LFn) : Except Unit (Option Nat × ECache) :=
  match lookup eq c.data k with
  | .error () => .error ()
  | .ok none => .ok (none, { c with misses := c.misses + 1 })
  | .ok (some i) =>
    match c.data[i]? with
    | some (e, v) => .ok (some v, { c with hits := c.hits + 1, data := c.data.eraseIdx i ++ [(e, v)] })
    | none => .ok (none, c)

/-- `__setitem__` (80-90) -/
def ECache.set (eq : LFn → LFn → Cmp) (c : ECache) (k : LFn) (v : Nat) : Except Unit ECache :=
  match lookup eq c.data k with
  | .error () => .error ()
  | .ok (some i) => .ok { c with data := c.data.set i ((c.data[i]?.map (·.1)).getD k, v) }   -- value replaced in place
  | .ok none =>
    let d := c.data ++ [(k, v)]
    .ok { c with data := if d.length > c.maxsize then d.drop 1 else d }

def ECache.clear (c : ECache) : ECache := { c with data := [], hits := 0, misses := 0 }

/-! ## Materialising cached calls -/

inductive Step where
  /-- `maybe_make(x)` of a `cache_result_` call `x` -/
  | make (x : LFn)
  | clear
  deriving DecidableEq, Repr, Inhabited

inductive Out where
  /-- the stored object -/
  | hit (obj : Nat)
  /-- evaluated afresh: a new object -/
  | miss (obj : Nat)
  /-- the look-up raised (`ValueError: The truth value of an array … is ambiguous`) -/
  | raised
  | cleared
  deriving DecidableEq, Repr, Inhabited

structure St where
  cache : ECache
  /-- next result object -/
  fresh : Nat := 0
  deriving DecidableEq, Repr, Inhabited

/-- `_maybe_lru_cache.wrapped_fn` (lazy_fns.py:63-83) for a `cache_result` `LazyFn` -/
def step (eq : LFn → LFn → Cmp) (s : St) : Step → Out × St
  | .clear => (.cleared, { s with cache := s.cache.clear })
  | .make x =>
    match s.cache.get eq x with
    | .error () => (.raised, s)
    | .ok (some v, c) => (.hit v, { s with cache := c })
    | .ok (none, c) =>
      match c.set eq x s.fresh with
      | .error () => (.raised, { s with cache := c, fresh := s.fresh + 1 })
      | .ok c' => (.miss s.fresh, { cache := c', fresh := s.fresh + 1 })

def run (eq : LFn → LFn → Cmp) : St → List Step → List Out × St
  | s, [] => ([], s)
  | s, x :: xs =>
    let r := step eq s x
    let rest := run eq r.2 xs
    (r.1 :: rest.1, rest.2)

end MlModel.LazyEq
