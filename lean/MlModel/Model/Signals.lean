import MlModel.Model.Basic
/-!
# Model of the three classification signals
`ml_metrics/_src/signals/flip_masks.py`, `topk_accuracy.py`, `cross_entropy.py`.

Scores are rationals.  `log` is symbolic: a cross-entropy is a list of terms `(coef, arg)` standing
for `Σ coef · log(arg)`; the harness finishes it in float64.
-/
namespace MlModel.Signals

/-! ## flip masks (flip_masks.py) -/

/-- `binary_flip_mask` with a threshold: `logical_xor(base > t, model > t).astype(int)` -/
def binaryFlip (t b m : Rat) : Nat := if (decide (t < b)) != (decide (t < m)) then 1 else 0
/-- `neg_to_pos_flip_mask`: `logical_and(base <= t, model > t).astype(int)` -/
def negToPos (t b m : Rat) : Nat := if b ≤ t ∧ t < m then 1 else 0
/-- `pos_to_neg_flip_mask`: `logical_and(base > t, model <= t).astype(int)` -/
def posToNeg (t b m : Rat) : Nat := if t < b ∧ m ≤ t then 1 else 0

/-- `threshold=None`: `logical_xor(base, model).astype(int)` on booleans -/
def binaryFlipB (b m : Bool) : Nat := if b != m then 1 else 0
/-- `threshold=None`: `not base and model` -/
def negToPosB (b m : Bool) : Bool := !b && m
/-- `threshold=None`: `base and not model` -/
def posToNegB (b m : Bool) : Bool := b && !m

/-! ## top-k accuracy (topk_accuracy.py) -/

/-- `label in np.argsort(y_pred * weights)[-k:]` for pairwise distinct weighted scores: the label's
position in ascending order is the number of smaller scores; `[-k:]` keeps positions `≥ n - k`
(everything when `k ≥ n` — and, a Python slicing artefact, also when `k = 0`). -/
def topkAccurate (scores : List Rat) (label k : Nat) : Bool :=
  match scores[label]? with
  | none => false                                   -- `label in [...]` of an index that does not exist
  | some s =>
    if k = 0 then true
    else decide (scores.length - k ≤ scores.countP (· < s))

def weighted (scores weights : List Rat) : List Rat := List.zipWith (· * ·) scores weights

/-! ## cross entropy (cross_entropy.py), `log` symbolic -/

/-- `Σ coef · log(arg)` -/
abbrev LogTerms := List (Rat × Rat)

/-- `_check_y_true_contains_only_0_and_1` -/
def checkLabels (ys : List Rat) : Except ErrKind Unit :=
  if ys.all (fun y => y == 0 || y == 1) then .ok () else .error .value

/-- `-np.mean(y_true * np.log(y_pred) + (1 - y_true) * np.log(1 - y_pred))` -/
def binaryCrossEntropy (ys ps : List Rat) : Except ErrKind LogTerms := do
  checkLabels ys
  if ys.length ≠ ps.length then throw .value
  let n : Rat := ys.length
  pure ((ys.zip ps).flatMap fun (y, p) => [(-(y / n), p), (-((1 - y) / n), 1 - p)])

/-- `-np.sum(y_true * np.log(y_pred / np.sum(y_pred)))` -/
def categoricalCrossEntropy (ys ps : List Rat) : Except ErrKind LogTerms := do
  checkLabels ys
  if ys.length ≠ ps.length then throw .value
  let total := ps.sum
  pure ((ys.zip ps).map fun (y, p) => (-y, p / total))

end MlModel.Signals
