import MlModel.Model.Resume
/-!
# Chains of named transforms of ANY length under checkpoint / resume (property C10)

Mirrors `chainables/transform.py`:
* `ChainedRunner.iterate` (640–671): `iterator = data_source; for r in runners: iterator =
  r.iterate(iterator, …); iterators.append(iterator)` — runner `i + 1` has runner `i`'s iterator
  as its only data source (`chainFresh`);
* `_ChainedRunnerIterator` (461–566): `_iterators` (all runner iterators, upstream first),
  `__next__` = `next(self._iterators[-1])`, `agg_state` / `agg_result` = the entries of every
  tracked iterator with `has_agg` (`named_iterators(agg_only=True)`), `state`, and
  **`from_state`** (544–566): restore the LAST iterator from its state — this restores its whole
  upstream chain as its data sources (`MultiplexIterator.from_state`, iter_utils.py:379–385) —
  and then walk up the *restored* chain, `(upstream,) = iterators[0]._data_sources;
  iterators.insert(0, upstream)`, once per remaining stage (`ChainIt.walk`).

A runner iterator is `Resume.PipeIt`, a runner iterator used as a data source is `Resume.pipeRec`;
a chain of `n` stages is the `n`-fold nesting (`chainRec`).  Stages are listed **downstream
first** (`rs = [last, …, first]`) so that the recursion follows the `_data_sources` pointers.
All stages work on one element type `β` and one aggregate state type `S` (Python: `Any`, and
`_AggState = dict[MetricKey, Any]`); a heterogeneous chain embeds by taking sums.

Which iterator object is which: inside `top : (chainRec R rs).It` the iterator of the stage `d`
hops upstream of the last one is `top.src.src…` (`d` times `.src` = `d` times `_data_sources[0]`).
`ChainIt.tracked` records `_iterators` as this list of hop counts, upstream first, so that
"the restored chain tracks every stage exactly once" is `tracked = [n-1, …, 1, 0]`.
-/
namespace MlModel.Resume

/-- One named transform = one `TransformRunner`: its name, its row-wise operator chain (each input
element yields the list `f a`: one element for `apply`/`assign`/`select`, none or one for
`filter`), its aggregate and how an output is fed to it, and `has_agg`. -/
structure Stage (β X S Res : Type) where
  name : String
  f : β → List β
  m : Agg.Mergeable X S Res
  batchOf : β → List X
  hasAgg : Bool

variable {β X S Res : Type}

/-- the runner of a stage (definitionally `Lemmas/Resume.lean: rowPipe s.f s.m s.batchOf`) -/
def Stage.pipe (s : Stage β X S Res) : PipeDef β β Unit X S Res := ⟨Trans.ofFn s.f, s.m, s.batchOf⟩

/-- The iterator kind of the last stage of a chain (stages downstream first): a runner iterator
whose data source is the iterator of the rest of the chain; the empty chain is the source. -/
def chainRec (R : Recoverable β) : List (Stage β X S Res) → Recoverable β
  | [] => R
  | s :: ss => pipeRec (chainRec R ss) s.pipe

/-- `ChainedRunner.iterate` (transform.py:653–662): every runner iterates over the previous
runner's iterator, each starting from `create_state()`. -/
def chainFresh (R : Recoverable β) : (rs : List (Stage β X S Res)) → R.It → (chainRec R rs).It
  | [], it => it
  | s :: ss, it => PipeIt.fresh (chainRec R ss) s.pipe (chainFresh R ss it) s.m.empty

/-- the aggregation states of all stages, downstream first (`it.agg_state` of the iterator `d`
hops upstream is entry `d`) -/
def aggsDown (R : Recoverable β) : (rs : List (Stage β X S Res)) → (chainRec R rs).It → List S
  | [], _ => []
  | _ :: ss, it =>
    (show PipeIt (chainRec R ss) β Unit S from it).agg ::
      aggsDown R ss (show PipeIt (chainRec R ss) β Unit S from it).src

/-- `_ChainedRunnerIterator`: `_iterators[-1]` (which owns its upstream chain through
`_data_sources`) and `_iterators` as hop counts from it, upstream first. -/
structure ChainIt (R : Recoverable β) (rs : List (Stage β X S Res)) where
  top : (chainRec R rs).It
  tracked : List Nat

/-- `[n-1, …, 1, 0]`: every stage once, upstream first -/
def depthsOf : Nat → List Nat
  | 0 => []
  | n + 1 => n :: depthsOf n

/-- `ChainedRunner.iterate`: `_iterators` = the iterators just built, in order -/
def ChainIt.fresh (R : Recoverable β) (rs : List (Stage β X S Res)) (it : R.It) : ChainIt R rs :=
  ⟨chainFresh R rs it, depthsOf rs.length⟩

/-- `_ChainedRunnerIterator.__next__`: `next(self._iterators[-1])` -/
def ChainIt.next (R : Recoverable β) (rs : List (Stage β X S Res)) (c : ChainIt R rs) :
    Option β × ChainIt R rs :=
  let r := (chainRec R rs).next c.top
  (r.1, { c with top := r.2 })

/-- `state` (transform.py:537–542): `{it.name: it.state for it in self._iterators}`; `from_state`
reads only `state[last.name]`, which nests the states of the whole upstream chain
(`_IteratorState.input_states`), so only that entry is modelled. -/
def ChainIt.state (R : Recoverable β) (rs : List (Stage β X S Res)) (c : ChainIt R rs) :
    (chainRec R rs).St :=
  (chainRec R rs).state c.top

/-- The loop of `from_state` (transform.py:555–558) on hop counts: `iterators` starts as
`[restored last]` = `[0]`; each round takes `iterators[0]`, follows its single data source — one
hop further upstream — and inserts that in front.  A data source beyond the first stage is not a
runner iterator: `_ChainedRunnerIterator.__init__` asserts (`n` = number of stages). -/
def ChainIt.walk (n : Nat) : Nat → List Nat → Except ErrKind (List Nat)
  | 0, its => .ok its
  | k + 1, its =>
    match its with
    | [] => .error .index                       -- `iterators[0]` of an empty list
    | d :: _ => if d + 1 < n then ChainIt.walk n k ((d + 1) :: its) else .error .assertion

/-- `_ChainedRunnerIterator.from_state(state)` (transform.py:544–566). -/
def ChainIt.fromState (R : Recoverable β) (rs : List (Stage β X S Res)) (self : ChainIt R rs)
    (st : (chainRec R rs).St) : Except ErrKind (ChainIt R rs) := do
  let restored ← (chainRec R rs).restore st                 -- last.from_state(state[last.name])
  let tracked ← ChainIt.walk rs.length (self.tracked.length - 1) [0]   -- for _ in self._iterators[:-1]
  return ⟨restored, tracked⟩

/-- `agg_state` / `agg_result` of the chained iterator (transform.py:517–535): for every tracked
iterator with `has_agg`, in order, its name and its aggregation state (`agg_result` is
`get_result` of each of them).  An iterator that is not tracked contributes nothing. -/
def ChainIt.aggState (R : Recoverable β) (rs : List (Stage β X S Res)) (c : ChainIt R rs) :
    List (String × S) :=
  c.tracked.filterMap fun d =>
    (rs[d]?).bind fun s => ((aggsDown R rs c.top)[d]?).bind fun a =>
      if s.hasAgg then some (s.name, a) else none

/-- `[next(it) for _ in range(k)]` on the chained iterator -/
def chainTakeN (R : Recoverable β) (rs : List (Stage β X S Res)) :
    Nat → ChainIt R rs → List β × ChainIt R rs
  | 0, c => ([], c)
  | k + 1, c =>
    match ChainIt.next R rs c with
    | (none, c') => ([], c')
    | (some b, c') => let r := chainTakeN R rs k c'; (b :: r.1, r.2)

/-- A chained iterator under a history (`Resume.Op`): the running iterator, the captured state,
what was delivered before the last checkpoint / since, what every `take` returned. -/
structure ChainRun (R : Recoverable β) (rs : List (Stage β X S Res)) where
  c : ChainIt R rs
  saved : (chainRec R rs).St
  committed : List β
  tentative : List β
  log : List (List β)

def ChainRun.init (R : Recoverable β) (rs : List (Stage β X S Res)) (it : R.It) : ChainRun R rs :=
  let c := ChainIt.fresh R rs it
  ⟨c, ChainIt.state R rs c, [], [], []⟩

/-- `restore` = `running_iterator.from_state(saved)` (the harness' idiom `self`; a fresh
`make().iterate()` as the receiver has the same `_iterators` length and the same runners). -/
def ChainRun.step (R : Recoverable β) (rs : List (Stage β X S Res)) (r : ChainRun R rs) :
    Op → Except ErrKind (ChainRun R rs)
  | .take k =>
    let o := chainTakeN R rs k r.c
    .ok { r with c := o.2, tentative := r.tentative ++ o.1, log := r.log ++ [o.1] }
  | .ckpt =>
    .ok { r with saved := ChainIt.state R rs r.c, committed := r.committed ++ r.tentative,
                 tentative := [] }
  | .restore => do
    let c' ← ChainIt.fromState R rs r.c r.saved
    .ok { r with c := c', tentative := [] }

def ChainRun.run (R : Recoverable β) (rs : List (Stage β X S Res)) (r : ChainRun R rs)
    (ops : List Op) : Except ErrKind (ChainRun R rs) :=
  ops.foldlM (ChainRun.step R rs) r

def ChainRun.delivered {R : Recoverable β} {rs : List (Stage β X S Res)} (r : ChainRun R rs) :
    List β :=
  r.committed ++ r.tentative

/-! ### the seeded regression `C10-m3-chain-restore-drops-head-stage` (witness only)

`iterators.append(upstream)` + `reversed(iterators)` where the walk never advances: it always
takes the data source of the restored LAST iterator. -/

def ChainIt.walkStuck (n : Nat) : Nat → List Nat → Except ErrKind (List Nat)
  | 0, its => .ok its.reverse
  | k + 1, its => if 1 < n then ChainIt.walkStuck n k (its ++ [1]) else .error .assertion

end MlModel.Resume
