import MlModel.Model.Strategy
/-!
# C03, round 10: data-source SHAPES and the OBSERVABLES a caller can take an aggregate from

Two parts of the code that `Model/Strategy.lean` abstracts away and that the strategies go through:

1. **A data source made of several sequences** (`SequenceDataSource.from_sequences`, io.py:56-62).  `shardParts`
   (Strategy.lean) cuts the flat element list; the code cuts `MergedSequences.slice` (iter_utils.py:285-307): a
   chain of `_RangeIterator`s, one per underlying sequence touched by `[start, end)`.  `mergedElems` /
   `mergedShardParts` go through that code path (`Merged.sliceElems`), for `make(shard=ShardConfig(i, k))` and for
   the per-thread shards of `TransformRunner._actual_inputs` (transform.py:404-410) alike.

2. **The aggregation state of a chain of named stages** (transform.py:111-131, 189-197, 311-341, 520-532,
   588-604, 638-671).  Every `_RunnerIterator` holds a dict `MetricKey -> state` restricted to the keys of ITS OWN
   `agg_fns`; `update_state` re-binds `state[key]` for every own key; `_ChainedRunnerIterator.agg_state` is
   `dict(chain(it.agg_state.items() ...))` over the aggregating iterators (a later item wins);
   `ChainedRunner.merge_states` lets every aggregating runner merge the entries under its own keys of ALL states and
   chains the results; `get_result` reads the entries under the runner's own keys.  Dicts are association lists in
   insertion order read with `lookupLast` (what `dict(items)[k]` answers).  States are VALUES here: an aggregate whose
   `update_state` mutates its state object in place shares that object between every dict that holds it — the
   value model is the behaviour of aggregates returning NEW state objects (tuples, numbers, frozen dataclasses), which
   is the stricter reading: whatever holds for values holds for shared objects that are only reached through the
   owning stage.
-/
namespace MlModel.StrategyObs
open MlModel.Shard MlModel.Merged

/-! ## 1. `SequenceDataSource.from_sequences(parts)` -/

section Source
variable {α : Type}

/-- `list(d)` when `d.data = MergedSequences(parts)`: `SequenceIterator.__init__` iterates
`config.data[config.start : config.end]` (io.py:120) = `MergedSequences.slice` (iter_utils.py:285-307). -/
def mergedElems (d : DS) (parts : List (List α)) : List α :=
  sliceElems parts (some d.start) (some d.end)

/-- `SequenceDataSource.from_sequences(parts)`: `len(data) = _seq_idxs[-1]` -/
def mergedRoot (parts : List (List α)) : DS := DS.root (total (parts.map List.length))

/-- `list(d.shard(i, k))` for `i = 0..k-1`, each through `MergedSequences.slice`: the shard runs of
`make(shard=ShardConfig(i, k))` and the `k = num_threads` producers of `_actual_inputs`. -/
def mergedShardParts (d : DS) (k : Nat) (parts : List (List α)) : List (List α) :=
  (List.range k).map fun (i : Nat) => mergedElems (d.shardCore (i : Int) (k : Int) 0) parts

end Source

/-! ## 2. Aggregation state of a chain of stages -/

section Chain
variable {K V X R : Type} [DecidableEq K]

/-- a Python dict as its `.items()` in insertion order -/
abbrev KV (K V : Type) := List (K × V)

/-- `dict(items)[k]`: the LAST item under `k` wins; `none` = `KeyError` -/
def lookupLast (k : K) : KV K V → Option V
  | [] => none
  | (k', v) :: rest =>
    match lookupLast k rest with
    | some w => some w
    | none => if k' = k then some v else none

/-- `state[k] = v` on an existing key: the item keeps its position -/
def setKey (s : KV K V) (k : K) (v : V) : KV K V :=
  s.map fun kv => if kv.1 = k then (k, v) else kv

/-- The aggregating part of one `TransformRunner`: the keys of `agg_fns` (`MetricKey(output_keys)`, a dict: no
repetition) and, per key, `create_state` / `update_state` / `merge_states([a, b])` / `get_result` of its
`TreeAggregateFn`.  A stage without aggregates has `keys = []`. -/
structure AStage (K V X R : Type) where
  keys : List K
  create : K → V
  upd : K → V → X → V
  merge : K → V → V → V
  result : K → V → R

/-- `TransformRunner.create_state` (transform.py:305-309) -/
def AStage.createState (st : AStage K V X R) : KV K V := st.keys.map fun k => (k, st.create k)

/-- `_RunnerIterator.__init__` (transform.py:128-131) behind `TransformRunner.iterate`'s
`state=state or self.create_state()` (transform.py:453): an absent or EMPTY given state is replaced by the
runner's own fresh state; then "only keep the states relevant to the runner". -/
def AStage.init (st : AStage K V X R) (given : Option (KV K V)) : KV K V :=
  let state := match given with
    | none => st.createState
    | some s => if s.isEmpty then st.createState else s
  state.filter fun kv => decide (kv.1 ∈ st.keys)

/-- `TransformRunner.update_state` (transform.py:311-341, unsliced): for every own key, in order,
`state[key] = agg_fn.update_state(state[key], inputs)`; a missing key is a `KeyError`.
`updKey` = one iteration of that loop. -/
def AStage.updKey (st : AStage K V X R) (x : X) (s : KV K V) (k : K) : Except ErrKind (KV K V) :=
  match lookupLast k s with
  | some v => .ok (setKey s k (st.upd k v x))
  | none => .error .key

def AStage.update (st : AStage K V X R) (s : KV K V) (x : X) : Except ErrKind (KV K V) :=
  st.keys.foldlM (st.updKey x) s

/-- `it.agg_state` of a `_RunnerIterator` after it has emitted `feed` (transform.py:189-193) -/
def AStage.run (st : AStage K V X R) (given : Option (KV K V)) (feed : List X) : Except ErrKind (KV K V) :=
  feed.foldlM st.update (st.init given)

/-- the `agg_state` of every runner iterator of `ChainedRunner.iterate(state=given)` (transform.py:652-661: every
aggregating runner is handed the SAME `state`; a runner without aggregates gets `None` and, having no key, holds
`{}`), stage `i` having emitted `feeds[i]` -/
def chainStates : List (AStage K V X R) → Option (KV K V) → List (List X) → Except ErrKind (List (KV K V))
  | [], _, _ => .ok []
  | st :: rest, given, feeds =>
    match st.run given (feeds.headD []) with
    | .error e => .error e
    | .ok s =>
      match chainStates rest given feeds.tail with
      | .error e => .error e
      | .ok r => .ok (s :: r)

/-- `_ChainedRunnerIterator.agg_state` (transform.py:527-532): `dict(chain.from_iterable(it.agg_state.items()))`
over the aggregating iterators — what `AggregateResult.agg_state` carries through `StopIteration`. -/
def chainAggState (stages : List (AStage K V X R)) (given : Option (KV K V)) (feeds : List (List X)) :
    Except ErrKind (KV K V) :=
  (chainStates stages given feeds).map List.flatten

/-- `TransformRunner.get_result(state)` (transform.py:376-397, unsliced): the entries under the runner's own
keys, everything else skipped -/
def AStage.getResult (st : AStage K V X R) (s : KV K V) : KV K R :=
  (s.filter fun kv => decide (kv.1 ∈ st.keys)).map fun kv => (kv.1, st.result kv.1 kv.2)

/-- `_ChainedRunnerIterator.agg_result` (transform.py:516-525): every aggregating iterator's
`runner.get_result(it.agg_state)`, chained -/
def chainAggResult (stages : List (AStage K V X R)) (sts : List (KV K V)) : KV K R :=
  (stages.zip sts).flatMap fun p => p.1.getResult p.2

/-- `ChainedRunner.get_result(state)` (transform.py:606-612): every aggregating runner's `get_result` of the ONE
state, chained -/
def chainGetResult (stages : List (AStage K V X R)) (s : KV K V) : KV K R :=
  stages.flatMap fun st => st.getResult s

/-- one step of `TransformRunner.merge_states` (transform.py:359-365): the items of one state, own keys only;
present again → `agg_fn.merge_states([acc, fn_state])`, else inserted (at the end) -/
def AStage.mergeItem (st : AStage K V X R) (acc : KV K V) (kv : K × V) : KV K V :=
  if kv.1 ∈ st.keys then
    match lookupLast kv.1 acc with
    | some a => setKey acc kv.1 (st.merge kv.1 a kv.2)
    | none => acc ++ [kv]
  else acc

/-- `TransformRunner.merge_states(states)` (transform.py:343-374) -/
def AStage.mergeStates (st : AStage K V X R) (states : List (KV K V)) : KV K V :=
  states.foldl (fun acc s => s.foldl st.mergeItem acc) []

/-- `ChainedRunner.merge_states(states)` (transform.py:588-604): `states = list(states)`, every aggregating runner
merges ALL the states, the results are chained -/
def chainMergeStates (stages : List (AStage K V X R)) (states : List (KV K V)) : KV K V :=
  stages.flatMap fun st => st.mergeStates states

/-- A stage whose aggregates are mergeable metrics (`Model/Agg/Core.lean`, the interface C01/C11 prove `Lawful`
instances of): `create_state = make()`, `update_state s x = s.add(sel x)`, `merge_states([a, b]) = a.merge(b)`,
`get_result = result` (`MergeableMetricAggFn`, base.py:168-200).  With it `foldl upd create feed` is
`Strategy.Agg.state`: the bridge between this keyed model and the per-aggregate one of `Model/Strategy.lean`. -/
def AStage.ofMergeable {Y : Type} (keys : List K) (m : K → Agg.Mergeable Y V R) (sel : K → X → List Y) :
    AStage K V X R where
  keys := keys
  create k := (m k).empty
  upd k s x := (m k).add s (sel k x)
  merge k := (m k).merge
  result k := (m k).result

end Chain

/-! ## Concrete aggregate library of the correspondence (twin of `harness/lib_c03y.py`)

Stream elements are integers; every state is a list of integers (a tuple / a number / the fields of a frozen
dataclass / a list mutated in place / the moments of `MeanAndVariance`). -/

inductive AKind where
  | sumcount   -- tuple `(sum, count)`; also the in-place list `[sum, count]`
  | count      -- number `count` (starts at the falsy `0`)
  | sumsq      -- frozen dataclass `(total, squares)`
  | max        -- `None`, then the largest value
  | collect    -- everything, in order (MergeableMetric mutated in place)
  | moments    -- `MeanAndVariance`: `(count, sum, sum of squares)`
  deriving DecidableEq, Repr

def AKind.create : AKind → List Int
  | .sumcount => [0, 0]
  | .count => [0]
  | .sumsq => [0, 0]
  | .max => []
  | .collect => []
  | .moments => [0, 0, 0]

def AKind.upd (kd : AKind) (s : List Int) (x : Int) : List Int :=
  match kd, s with
  | .sumcount, [t, c] => [t + x, c + 1]
  | .count, [c] => [c + 1]
  | .sumsq, [t, q] => [t + x, q + x * x]
  | .max, [] => [x]
  | .max, [m] => [if m < x then x else m]
  | .collect, l => l ++ [x]
  | .moments, [n, t, q] => [n + 1, t + x, q + x * x]
  | _, s => s

def AKind.merge (kd : AKind) (a b : List Int) : List Int :=
  match kd, a, b with
  | .sumcount, [t, c], [t', c'] => [t + t', c + c']
  | .count, [c], [c'] => [c + c']
  | .sumsq, [t, q], [t', q'] => [t + t', q + q']
  | .max, [], b => b
  | .max, a, [] => a
  | .max, [m], [m'] => [if m < m' then m' else m]
  | .collect, a, b => a ++ b
  | .moments, [n, t, q], [n', t', q'] => [n + n', t + t', q + q']
  | _, a, _ => a

/-- a stage of the correspondence: keys are `(name, kind)` pairs, names unique -/
def libStage (keys : List (String × AKind)) : AStage (String × AKind) (List Int) Int (List Int) where
  keys := keys
  create k := k.2.create
  upd k := k.2.upd
  merge k := k.2.merge
  result _ s := s

end MlModel.StrategyObs
