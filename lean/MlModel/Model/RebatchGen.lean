import MlModel.Model.Rebatch
/-!
# `TreeFn._iterate` as a chain of lazy iterators, with failing calls and `ignore_error`

(chainables/tree_fns.py:247–267, utils/iter_utils.py:64–106.)  `Model/Rebatch.lean: treeFn` models the
chain for a function that never raises.  Here every link is an *iterator*: what a consumer sees is a
list of **pulls** — each `next()` either hands out an item or raises — so that where the error
skipping sits in the chain is part of the model:

```
fn_inputs  = map(self._get_inputs, input_iterator)
if self.fn_batch_size: fn_inputs = rebatched_args(fn_inputs, batch_size=self.fn_batch_size, ...)   # generator
map_       = iter_utils.map_ignore_error if ignore_error else map      # "Only ignore function call error."
fn_outputs = map_(self._maybe_call_fn, fn_inputs)                      # iter_ignore_error(map(fn, it))
fn_outputs = map(self._normalize_outputs, fn_outputs)
if self.batch_size: fn_outputs = rebatched_args(fn_outputs, batch_size=self.batch_size, ...)       # generator
```

* a **generator** (`rebatched_args`, `iter_ignore_error`) that lets an exception out is finalised: it
  raises once and answers `StopIteration` ever after (`Run.pulls`: the yields, then at most one raise);
* built-in **`map`** is resumable: a call that raises is one failing pull, the next pull calls the
  function on the next input (`callMap`);
* **`iter_ignore_error`** swallows `ValueError` / `TypeError` raised by the iterator it wraps and pulls
  again (`ignoreErr`);
* **`rebatched_args`** pulling from such an iterator: an exception raised by `next(tuples)` passes
  through the generator — the batches yielded so far stay yielded, the rows in `column_buffer` die with
  the generator frame (`runEvFrom`).
-/
namespace MlModel.Rebatch

/-- one `next()` on an iterator: an item, or an exception -/
inductive Pull (α : Type) where
  | item (a : α)
  | raise (e : ErrKind)
  deriving Repr, DecidableEq

/-- `_IGNORE_ERROR_TYPES = (ValueError, TypeError)` (iter_utils.py:43) -/
def ignorable : ErrKind → Bool
  | .value => true
  | .type => true
  | _ => false

/-- what a consumer pulls from a generator that ran to `r`: its yields, then the exception if it
raised (after which it is exhausted) -/
def Run.pulls {α : Type} (r : Run α) : List (Pull (Batch α)) :=
  r.out.map .item ++ (match r.err with | some e => [.raise e] | none => [])

/-- `map(self._maybe_call_fn, it)` (followed by `map(self._normalize_outputs, …)`, which cannot fail):
one pull per pull of `it`.  `_maybe_call_fn` re-raises whatever the function raises as `ValueError`
(tree_fns.py:214–227); an exception raised by `it` itself passes through `map`. -/
def callMap {α β : Type} (G : Batch α → Except ErrKind (Batch β)) :
    List (Pull (Batch α)) → List (Pull (Batch β))
  | [] => []
  | .item b :: rest =>
    (match G b with
     | .ok o => Pull.item o
     | .error _ => Pull.raise .value) :: callMap G rest
  | .raise e :: rest => .raise e :: callMap G rest

/-- `iter_ignore_error(it)` (iter_utils.py:64–87, `error_return=None`): a `ValueError` / `TypeError`
raised by `next(it)` is swallowed and `next(it)` is called again; any other exception leaves the
wrapper (a generator), which ends it. -/
def ignoreErr {γ : Type} : List (Pull γ) → List (Pull γ)
  | [] => []
  | .item a :: rest => .item a :: ignoreErr rest
  | .raise e :: rest => if ignorable e then ignoreErr rest else [.raise e]

/-- the `while` loop of `rebatched_args` over an iterator that may raise: as `runFrom`, and an
exception raised by `next(tuples, None)` ends the generator with what it has yielded so far -/
def runEvFrom {α : Type} (target ncols : Nat) (pad : Option α) :
    St α → List (Batch α) → List (Pull (Batch α)) → Run α
  | st, acc, [] =>
    match finish target pad st with
    | .ok o => ⟨acc ++ o, none⟩
    | .error e => ⟨acc, some e⟩
  | _, acc, .raise e :: _ => ⟨acc, some e⟩
  | st, acc, .item b :: rest =>
    match step target ncols pad st b with
    | .ok (st', o) => runEvFrom target ncols pad st' (acc ++ o) rest
    | .error e => ⟨acc, some e⟩

/-- `yield from tuples` (batch_size = 0): items are passed on until the iterator raises -/
def passThrough {α : Type} : List (Batch α) → List (Pull (Batch α)) → Run α
  | acc, [] => ⟨acc, none⟩
  | acc, .raise e :: _ => ⟨acc, some e⟩
  | acc, .item b :: rest => passThrough (acc ++ [b]) rest

/-- `rebatched_args(it, batch_size=target, num_columns=numColumns, pad=pad)` over an iterator given by
its pulls (`run` is the special case of an iterator that never raises: `runEv_items`). -/
def runEv {α : Type} (target numColumns : Nat) (pad : Option α)
    (evs : List (Pull (Batch α))) : Run α :=
  if target == 0 then passThrough [] evs
  else
    if numColumns != 0 then runEvFrom target numColumns pad (St.init numColumns) [] evs
    else match evs with
      | [] => ⟨[], none⟩
      | .raise e :: _ => ⟨[], some e⟩                  -- `mit.first(tuples, None)` raises
      | .item b :: _ => runEvFrom target b.length pad (St.init b.length) [] evs

/-- `TreeFn._iterate(input_iterator, ignore_error=skip)` for a batch function `G` that may raise:
the first re-batcher (a generator; for `fn_batch_size = 0` the plain source), one guarded call per
group, the second re-batcher pulling from the calls.  `skip = true`: `map_ = map_ignore_error` —
the skipping sits **between** the two re-batchers, around the calls only. -/
def treeFnGen {α β : Type} (skip : Bool) (fnBatch batch nin nout : Nat)
    (G : Batch α → Except ErrKind (Batch β)) (bs : List (Batch α)) : Run β :=
  let groups := (run fnBatch nin none bs).pulls
  let calls := callMap G groups
  runEv batch nout none (if skip then ignoreErr calls else calls)

/-- **Contrast** (not the code): the skipping applied once at the very end of the chain —
`iter_ignore_error` around the *output* re-batcher instead of `map_ignore_error` around the calls.
A failing call then raises through the output `rebatched_args` generator: the wrapper swallows the
error, pulls again, and the finalised generator answers `StopIteration`. -/
def treeFnSkipLast {α β : Type} (fnBatch batch nin nout : Nat)
    (G : Batch α → Except ErrKind (Batch β)) (bs : List (Batch α)) : List (Pull (Batch β)) :=
  ignoreErr (runEv batch nout none (callMap G (run fnBatch nin none bs).pulls)).pulls

/-- the results of the calls that do not raise, in order -/
def okCalls {α β : Type} (G : Batch α → Except ErrKind (Batch β)) (gs : List (Batch α)) :
    List (Batch β) :=
  gs.filterMap fun g => match G g with | .ok o => some o | .error _ => none

/-- a batch function that raises on the groups satisfying `bad` and otherwise is the row-wise
flat-map `flatMapRows g kinds` -/
def failingOn {α β : Type} [Inhabited α] [Inhabited β] (bad : Batch α → Bool)
    (g : List α → List (List β)) (kinds : List Kind) (b : Batch α) : Except ErrKind (Batch β) :=
  if bad b then .error .runtime else .ok (flatMapRows g kinds b)

/-! ## functions with private state

A user function may keep state between calls (a counter, a cache, a model being updated): the result
of a call then depends on the calls made before it — also on the ones that raised. -/

/-- `callMap` for a function with state `σ`: the state is threaded through the calls in order; a
call that raises may have changed it -/
def callMapS {α β σ : Type} (G : σ → Batch α → Except ErrKind (Batch β) × σ) :
    σ → List (Pull (Batch α)) → List (Pull (Batch β))
  | _, [] => []
  | s, .item b :: rest =>
    match G s b with
    | (.ok o, s') => .item o :: callMapS G s' rest
    | (.error _, s') => .raise .value :: callMapS G s' rest
  | s, .raise e :: rest => .raise e :: callMapS G s rest

/-- `treeFnGen` for a function with state, started in state `s0` -/
def treeFnGenS {α β σ : Type} (skip : Bool) (fnBatch batch nin nout : Nat)
    (G : σ → Batch α → Except ErrKind (Batch β) × σ) (s0 : σ) (bs : List (Batch α)) : Run β :=
  let calls := callMapS G s0 (run fnBatch nin none bs).pulls
  runEv batch nout none (if skip then ignoreErr calls else calls)

/-- the results of the calls that do not raise, in order, the state threaded through ALL calls -/
def okCallsS {α β σ : Type} (G : σ → Batch α → Except ErrKind (Batch β) × σ) :
    σ → List (Batch α) → List (Batch β)
  | _, [] => []
  | s, g :: gs =>
    match G s g with
    | (.ok o, s') => o :: okCallsS G s' gs
    | (.error _, s') => okCallsS G s' gs

/-- the function's state after it has been called on the groups `gs` in order -/
def stateAfter {α β σ : Type} (G : σ → Batch α → Except ErrKind (Batch β) × σ) :
    σ → List (Batch α) → σ
  | s, [] => s
  | s, g :: gs => stateAfter G (G s g).2 gs

/-- the stateful sample function of the correspondence (`callno`): the state counts the calls made so
far (failing ones included); a call raises on a group satisfying `bad`, otherwise applies the
row-wise flat-map `g k` where `k` is the number of earlier calls -/
def countingOn {α β : Type} [Inhabited α] [Inhabited β] (bad : Batch α → Bool)
    (g : Nat → List α → List (List β)) (kinds : List Kind) (k : Nat) (b : Batch α) :
    Except ErrKind (Batch β) × Nat :=
  (if bad b then .error .runtime else .ok (flatMapRows (g k) kinds b), k + 1)

end MlModel.Rebatch
