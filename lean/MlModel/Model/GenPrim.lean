import MlModel.Model.Agg.RollingMath
/-!
# Semantic base of the scalar translator (`translate/scalar.py`)

The generated definitions (`MlModel/Generated/Scalar.lean`) are built from these primitives only.
A Python / numpy float is `F = Option Rat` (`none` = NaN, DESIGN §3); an `int` (a count) is embedded.
`fadd`, `fmul`, `fneg`, `fwhere` are those of `Model/Agg/RollingMath.lean` (IEEE: NaN is absorbing).
Hand-written once — like `safeDivide` for the rate table — and trusted as the meaning of the Python
operators on scalars:

* `a / b` with `b == 0` has no finite value (Python `ZeroDivisionError`, numpy `±inf`/`nan` + warning):
  `fdiv a 0 = none`;
* comparisons with NaN are `False`, except `!=` which is `True`;
* `np.minimum` propagates NaN;
* `math_utils.safe_divide(a, b)` is `np.divide(a, b, out=zeros, where=(b != 0))`: `0` where `b == 0`
  (whatever `a`, also NaN), otherwise IEEE `a / b` (`NaN != 0` holds, so a NaN divisor gives NaN).
  `translate/run.py` checks on every run that the Python body still has exactly this shape.
-/
namespace MlModel.Gen
open MlModel.Agg.Rolling

/-- a non-negative integer literal / an `int` value -/
def flit (n : Nat) : F := some (n : Rat)

/-- `a - b` -/
def fsub : F → F → F
  | some a, some b => some (a - b)
  | _, _ => none

/-- `a / b`; no finite value when `b == 0` -/
def fdiv : F → F → F
  | some a, some b => if b = 0 then none else some (a / b)
  | _, _ => none

/-- `abs` -/
def fabs : F → F
  | some a => some (rabs a)
  | none => none

/-- `np.minimum` (NaN propagates) -/
def fmin : F → F → F
  | some a, some b => some (if a ≤ b then a else b)
  | _, _ => none

/-- `a > b` (False on NaN) -/
def fgt : F → F → Bool
  | some a, some b => decide (b < a)
  | _, _ => false

/-- `a >= b` (False on NaN) -/
def fge : F → F → Bool
  | some a, some b => decide (b ≤ a)
  | _, _ => false

/-- `a == b` (False on NaN); also `math.isclose(a, 0)` with the default tolerances
(`rel_tol = 1e-9`, `abs_tol = 0`: `|a| ≤ 1e-9·|a|` iff `a = 0`) -/
def feq : F → F → Bool
  | some a, some b => decide (a = b)
  | _, _ => false

/-- `a != b` (True on NaN) -/
def fne (a b : F) : Bool := !(feq a b)

/-- `np.isnan` -/
def fisnan (a : F) : Bool := a.isNone

/-- `math_utils.safe_divide` on floats (see the module comment) -/
def fsafeDivide : F → F → F
  | _, none => none
  | a, some b => if b = 0 then some 0 else match a with
    | some a => some (a / b)
    | none => none

end MlModel.Gen
