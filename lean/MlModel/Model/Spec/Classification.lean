/-!
# Textbook definitions for the classification family (independent of the code)

Part 1 — the rates, as functions of the four counts, written from the definitions in
<https://en.wikipedia.org/wiki/Confusion_matrix> (and of `sqrt` for MCC / prevalence
threshold), with the library's documented convention that a ratio with a zero denominator
is `0` (`ratio`).

Part 2 — the counts, from the raw examples: an example carries the set of its true classes
and the set of its predicted classes; a *cell* is a pair (example, class).
`tp = |{cells : true ∧ predicted}|`, `fp = |{cells : ¬true ∧ predicted}|`, …;
`micro` pools all cells, `macro` takes the cells of one class at a time (then the mean over
classes of the per-class rate), `samples` the cells of one example at a time (then the mean
over examples), `binary` only the cells of the positive class.

Core Lean only (the proofs that use ordered-field reasoning live in `Properties/`).
-/
namespace MlModel.Spec.Classification

section Rates
variable {α : Type} [Add α] [Sub α] [Mul α] [Div α] [NatCast α] [DecidableEq α]

/-- a ratio whose denominator is zero is reported as 0 (documented convention) -/
def ratio (a b : α) : α := if b = ((0 : Nat) : α) then ((0 : Nat) : α) else a / b

variable (tp tn fp fn : α)

/-- PPV = TP / (TP + FP) -/
def precision : α := ratio tp (tp + fp)
/-- TPR = TP / (TP + FN) -/
def recall : α := ratio tp (tp + fn)
/-- TNR = TN / (TN + FP) -/
def specificity : α := ratio tn (tn + fp)
/-- FPR = FP / (FP + TN) -/
def fallOut : α := ratio fp (fp + tn)
/-- FNR = FN / (FN + TP) -/
def missRate : α := ratio fn (fn + tp)
/-- NPV = TN / (TN + FN) -/
def npv : α := ratio tn (tn + fn)
/-- FDR = FP / (FP + TP) -/
def fdr : α := ratio fp (fp + tp)
/-- FOR = FN / (FN + TN) -/
def falseOmission : α := ratio fn (fn + tn)
/-- TS = TP / (TP + FN + FP) -/
def threatScore : α := ratio tp (tp + fn + fp)
/-- F1 = 2 TP / (2 TP + FP + FN) -/
def f1 : α := ratio (((2 : Nat) : α) * tp) (((2 : Nat) : α) * tp + fp + fn)
/-- ACC = (TP + TN) / (TP + TN + FP + FN) -/
def binaryAccuracy : α := ratio (tp + tn) (tp + tn + fp + fn)
/-- prevalence = (TP + FN) / (TP + TN + FP + FN) -/
def prevalence : α := ratio (tp + fn) (tp + tn + fp + fn)
/-- LR+ = TPR / FPR -/
def plr : α := ratio (recall tp fn) (fallOut tn fp)
/-- LR− = FNR / TNR -/
def nlr : α := ratio (missRate tp fn) (specificity tn fp)
/-- DOR = (TP · TN) / (FP · FN) -/
def dor : α := ratio (tp * tn) (fp * fn)
/-- BM = TPR + TNR − 1 -/
def informedness : α := recall tp fn + specificity tn fp - ((1 : Nat) : α)
/-- MK = PPV + NPV − 1 -/
def markedness : α := precision tp fp + npv tn fn - ((1 : Nat) : α)
/-- BA = (TPR + TNR) / 2 -/
def balancedAccuracy : α := (recall tp fn + specificity tn fp) / ((2 : Nat) : α)
/-- MCC = (TP·TN − FP·FN) / √((TP+FP)(TP+FN)(TN+FP)(TN+FN)) -/
def mcc (sqrt : α → α) : α :=
  ratio (tp * tn - fp * fn) (sqrt ((tp + fp) * (tp + fn) * (tn + fp) * (tn + fn)))
/-- PT = (√(TPR·FPR) − FPR) / (TPR − FPR) -/
def prevalenceThreshold (sqrt : α → α) : α :=
  ratio (sqrt (recall tp fn * fallOut tn fp) - fallOut tn fp) (recall tp fn - fallOut tn fp)

end Rates

section Counts
/-- one example: which classes (by position in the class universe) are true / predicted -/
structure Cell where
  t : Bool
  p : Bool
  deriving DecidableEq, Repr

/-- the four textbook counts of a collection of cells -/
def tpOf (cs : List Cell) : Nat := cs.countP fun c => c.t && c.p
def fpOf (cs : List Cell) : Nat := cs.countP fun c => !c.t && c.p
def fnOf (cs : List Cell) : Nat := cs.countP fun c => c.t && !c.p
def tnOf (cs : List Cell) : Nat := cs.countP fun c => !c.t && !c.p

/-- an example given by membership predicates over a class universe of `W` classes -/
structure Example where
  isTrue : Nat → Bool
  isPred : Nat → Bool

def Example.cell (e : Example) (c : Nat) : Cell := ⟨e.isTrue c, e.isPred c⟩

/-- micro: all (example, class) cells pooled -/
def microCells (W : Nat) (exs : List Example) : List Cell :=
  exs.flatMap fun e => (List.range W).map e.cell
/-- macro: the cells of class `c` -/
def classCells (exs : List Example) (c : Nat) : List Cell := exs.map (·.cell c)
/-- samples: the cells of one example -/
def exampleCells (W : Nat) (e : Example) : List Cell := (List.range W).map e.cell

end Counts
end MlModel.Spec.Classification
