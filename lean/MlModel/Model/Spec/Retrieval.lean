import MlModel.Model.Agg.RetrievalThr
/-!
# Textbook definitions of the retrieval metrics (independent of the numpy-style model)

Written from the definitions, per example, directly on the raw lists: the ranking `P`
(`y_pred` row, best first) and the relevant items `T` (`y_true` row); binary relevance.
Nothing here mentions padded arrays, running sums or gathers — those belong to
`Model/Agg/Retrieval.lean`, and `Properties/C07/Retrieval.lean` proves the two agree.

Conventions taken from the code base's documentation (docstrings of
`metrics/retrieval.py`, comments of `aggregates/retrieval.py`, the expectations spelled
out in `retrieval_test.py`):
* `k_list`: "a list of topk each of which slices y_pred by y_pred[:topk]"; `None` = "all
  outputs in the prediction" (of that example);
* precision@k divides by the number of items actually retrieved, `min k |P|`;
* average precision "= (precision[k] * relevance[k]) / K", normalised by `min k |T|`;
* DCG/NDCG: "hard coded the relevance to 1.0", discount `1/log2(rank+1)`;
* threat score `TP / (TP + FN + FP)` with all `k` requested slots counted as retrieved
  (`FP = k - TP`) — `retrieval_test.py`: threat_score@2 of a one-item hit is `1/2`;
* a zero denominator is numpy's `0/0 = NaN`, except F1 (`safe_divide`: 0).
-/
namespace MlModel.Spec.Retrieval
open MlModel.Agg.Retrieval

variable {α : Type} [DecidableEq α]

/-- the retrieved items: the first `k` of the ranking -/
def topK (k : Nat) (P : List α) : List α := P.take k

/-- `|top_k ∩ true|`: retrieved items that are relevant -/
def hits (T P : List α) (k : Nat) : Nat := ((topK k P).filter (· ∈ T)).length

/-- number of retrieved items -/
def retrieved (P : List α) (k : Nat) : Nat := min k P.length

/-- binary relevance of the item at (1-based) rank `i`; no item there = not relevant -/
def rel (T P : List α) (i : Nat) : Bool :=
  match P[i - 1]? with
  | some p => decide (p ∈ T)
  | none => false

def precision (T P : List α) (k : Nat) : Q := Q.div (Q.ofNat (hits T P k)) (Q.ofNat (retrieved P k))

def recall (T P : List α) (k : Nat) : Q := Q.div (Q.ofNat (hits T P k)) (Q.ofNat T.length)

/-- top-k accuracy: is any relevant item retrieved -/
def accuracy (T P : List α) (k : Nat) : Q := Q.ofNat (if hits T P k > 0 then 1 else 0)

/-- `|∩| / |∪|` -/
def iou (T P : List α) (k : Nat) : Q :=
  Q.div (Q.ofNat (hits T P k)) (Q.ofInt ((retrieved P k : Int) + (T.length : Int) - (hits T P k : Int)))

/-- harmonic mean of precision and recall (0 when both are 0) -/
def f1 (T P : List α) (k : Nat) : Q :=
  match precision T P k, recall T P k with
  | some p, some r => if p + r = 0 then some 0 else some (2 * p * r / (p + r))
  | _, _ => none

def missRate (T P : List α) (k : Nat) : Q := Q.sub (some 1) (recall T P k)

def fdr (T P : List α) (k : Nat) : Q := Q.sub (some 1) (precision T P k)

/-- `TP / (TP + FN + FP)`, `FN = |T| - TP`, `FP = k - TP` -/
def threat (T P : List α) (k : Nat) : Q :=
  let tp : Int := hits T P k
  Q.div (Q.ofNat (hits T P k)) (Q.ofInt (tp + ((T.length : Int) - tp) + ((k : Int) - tp)))

/-- geometric mean of precision and recall -/
def fmi (T P : List α) (k : Nat) : V :=
  match precision T P k, recall T P k with
  | some p, some r => V.ofTerm (.sqrt (p * r))
  | _, _ => V.nan

/-- `AP@k = (Σ_{i=1..k} rel(i) · precision@i) / min(k, |T|)` with `precision@i = hits(i)/i` -/
def ap (T P : List α) (k : Nat) : Q :=
  let s : Rat := (List.range k).foldl
    (fun acc i => acc + (if rel T P (i + 1) then ((hits T P (i + 1) : Nat) : Rat) / ((i + 1 : Nat) : Rat) else 0)) 0
  Q.div (some s) (Q.ofNat (min k T.length))

/-- the best (least) rank `≤ k` holding a relevant item -/
def firstRel (T P : List α) (k : Nat) : Option Nat := (List.range' 1 k).find? (rel T P)

/-- reciprocal rank (0 when nothing relevant is retrieved) -/
def rr (T P : List α) (k : Nat) : Q :=
  match firstRel T P k with
  | some r => some (1 / ((r : Nat) : Rat))
  | none => some 0

/-- ranks `≤ k` holding a relevant item -/
def relRanks (T P : List α) (k : Nat) : List Nat := (List.range' 1 k).filter (rel T P)

/-- `DCG@k = Σ_{i ≤ k, rel(i)} 1/log2(i+1)` -/
def dcg (T P : List α) (k : Nat) : V := V.ofTerm (.dcg (relRanks T P k))

/-- ranks of the ideal ranking: all relevant items first -/
def idealRanks (T : List α) (k : Nat) : List Nat := List.range' 1 (min k T.length)

/-- `NDCG@k = DCG@k / IDCG@k` (`0/0` = NaN when there is no relevant item) -/
def ndcg (T P : List α) (k : Nat) : V :=
  match idealRanks T k with
  | [] => V.nan
  | ideal => V.ofTerm (.ndcg (relRanks T P k) ideal)

/-- value of a metric at `k` for one example -/
def metric (m : Metric) (T P : List α) (k : Nat) : V :=
  match m with
  | .accuracy => V.ofQ (accuracy T P k)
  | .precision | .ppv | .positivePredictiveValue => V.ofQ (precision T P k)
  | .recall | .sensitivity | .tpr => V.ofQ (recall T P k)
  | .intersectionOverUnion => V.ofQ (iou T P k)
  | .f1Score => V.ofQ (f1 T P k)
  | .meanAveragePrecision => V.ofQ (ap T P k)
  | .meanReciprocalRank => V.ofQ (rr T P k)
  | .missRate => V.ofQ (missRate T P k)
  | .falseDiscoveryRate => V.ofQ (fdr T P k)
  | .threatScore => V.ofQ (threat T P k)
  | .fowlkesMallowsIndex => fmi T P k
  | .dcgScore => dcg T P k
  | .ndcgScore => ndcg T P k

/-- the metric vector of one example: every configured metric at every K of that example -/
def rowVec (cfg : Config) (r : Row α) : List (List V) :=
  cfg.metrics.map fun m => (cfg.rowKs r).map fun k => metric m r.yTrue r.yPred k

/-- sum of vectors, left to right, from the zero vector -/
def sumVecs (nk : Nat) (vs : List (List V)) : List V := vs.foldl vecAdd (List.replicate nk V.zero)

/-- the metric over a dataset: the mean over the examples (as `(sum, count)`); `0.0` for no example -/
def dataset (cfg : Config) (rows : List (Row α)) : List MeanResult :=
  (List.range cfg.metrics.length).map fun j =>
    if rows.length = 0 then MeanResult.scalarZero
    else .mean (sumVecs cfg.nk (rows.map fun r => (rowVec cfg r).getD j [])) rows.length

end MlModel.Spec.Retrieval

/-! # Thresholded retrieval (pooled / micro precision, recall, F1 per probability threshold)

Per example: the ranking `P` with one probability per prediction, the relevant items `T`.
At threshold `t` the predicted positives are the predictions with probability `> t`. -/
namespace MlModel.Spec.Retrieval.Thr
open MlModel.Agg.Retrieval.Thr

variable {α : Type} [DecidableEq α]

/-- predicted positives of one example at threshold `t` -/
def predPos (r : MlModel.Agg.Retrieval.Thr.Row α) (t : Rat) : Nat := r.pairs.countP fun (q, _) => q > t

/-- … of which relevant -/
def predTP (r : MlModel.Agg.Retrieval.Thr.Row α) (t : Rat) : Nat := r.pairs.countP fun (q, p) => p ∈ r.yTrue ∧ q > t

/-- relevant items of one example that are retrieved with probability `> t` -/
def trueTP (r : MlModel.Agg.Retrieval.Thr.Row α) (t : Rat) : Nat :=
  r.yTrue.countP fun x => r.pairs.any fun (q, p) => p = x ∧ q > t

def sumOver (rows : List (MlModel.Agg.Retrieval.Thr.Row α)) (f : MlModel.Agg.Retrieval.Thr.Row α → Nat) : Nat := (rows.map f).foldl (· + ·) 0

/-- pooled precision at `t`: `Σ TP / Σ predicted positives` (0 when nothing is predicted) -/
def precision (rows : List (MlModel.Agg.Retrieval.Thr.Row α)) (t : Rat) : Rat :=
  if sumOver rows (predPos · t) = 0 then 0
  else (sumOver rows (predTP · t) : Rat) / (sumOver rows (predPos · t) : Rat)

/-- pooled recall at `t`: `Σ retrieved relevant / Σ relevant` (0 when nothing is relevant) -/
def recall (rows : List (MlModel.Agg.Retrieval.Thr.Row α)) (t : Rat) : Rat :=
  if sumOver rows (·.yTrue.length) = 0 then 0
  else (sumOver rows (trueTP · t) : Rat) / (sumOver rows (·.yTrue.length) : Rat)

def f1 (rows : List (MlModel.Agg.Retrieval.Thr.Row α)) (t : Rat) : Rat :=
  let p := precision rows t
  let r := recall rows t
  if p + r = 0 then 0 else 2 * p * r / (p + r)

/-- the documented input domain: one probability per prediction, probabilities in `[0, ∞)`,
a ranking of distinct items, a label set without repetitions -/
structure RowOk (r : MlModel.Agg.Retrieval.Thr.Row α) : Prop where
  len : r.probs.length = r.yPred.length
  nonneg : ∀ q ∈ r.probs, 0 ≤ q
  predNodup : r.yPred.Nodup
  trueNodup : r.yTrue.Nodup

end MlModel.Spec.Retrieval.Thr
