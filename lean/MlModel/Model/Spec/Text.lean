import MlModel.Model.Basic
/-!
# Textbook definitions of the text-frequency metrics (independent of `Model/Agg/Text.lean`)

Written from the docstrings of `TopKWordNGrams`, `PatternFrequency` (aggregates/text.py) and
`avg_alphabetical_char_count` (metrics/text.py), not from their code: a one-pass tokeniser, counting
by *positions*, frequencies as `count / number of texts` (0 for no texts), the table sorted by an
insertion sort on (frequency descending, then alphabetical).  No `Counter`, no folds over a mutable
state, no merge sort.  Core Lean only.

Documented conventions that the definitions follow:
* "cleaned by removing non-alphabetic characters" — every character that is neither an ASCII letter
  nor the space `' '` is *deleted* (so a tab or a newline glues its neighbours together), words are
  the maximal space-free runs, compared case-insensitively (lower-cased);
* `use_first_ngram_only`: only the first `n` words of each text, `count_duplicate` is then ignored;
* `count_duplicate = False`: an n-gram / a pattern counts at most once per text;
* ties in frequency are broken alphabetically (code-point order); the n-gram list is cut to `k`;
* overlapping occurrences of a pattern all count; the empty pattern occurs at every position.
-/
namespace MlModel.Spec.Text

abbrev Str := List Char

/-! ## words -/

/-- scan left to right: a letter extends the current word (lower-cased), a space ends it, anything
else is ignored -/
def scan : Str → Str → List Str
  | [], cur => if cur = [] then [] else [cur]
  | c :: cs, cur =>
    if c.isAlpha then scan cs (cur ++ [c.toLower])
    else if c = ' ' then (if cur = [] then scan cs [] else cur :: scan cs [])
    else scan cs cur

def words (t : Str) : List Str := scan t []

/-! ## n-grams -/

/-- the `n` words starting at word position `i`, written with single spaces -/
def gramAt (n : Nat) (ws : List Str) (i : Nat) : Str := List.intercalate [' '] ((ws.drop i).take n)

/-- the positions at which an n-gram starts: `i + n ≤ |ws|` -/
def positions (n : Nat) (ws : List Str) : List Nat :=
  (List.range (ws.length + 1)).filter fun i => i + n ≤ ws.length

/-- number of positions of `ws` at which the n-gram string `g` starts -/
def occIn (n : Nat) (g : Str) (ws : List Str) : Nat :=
  (positions n ws).countP fun i => gramAt n ws i = g

/-- what one text contributes to the count of `g` -/
def perText (n : Nat) (firstOnly countDup : Bool) (g : Str) (t : Str) : Nat :=
  let ws := words t
  if firstOnly then (if n ≤ ws.length ∧ gramAt n ws 0 = g then 1 else 0)
  else if countDup then occIn n g ws
  else if 0 < occIn n g ws then 1 else 0

def ngramCount (n : Nat) (firstOnly countDup : Bool) (g : Str) (texts : List Str) : Nat :=
  (texts.map (perText n firstOnly countDup g)).sum

/-- `count / number of texts`, and 0 when there are no texts -/
def freqOf (count total : Nat) : Rat := if total = 0 then 0 else (count : Rat) / (total : Rat)

/-- every n-gram string that starts somewhere in some text -/
def candidates (n : Nat) (texts : List Str) : List Str :=
  texts.flatMap fun t => (positions n (words t)).map (gramAt n (words t))

/-! ## the sorted table -/

/-- alphabetical order = lexicographic by code point, a proper prefix first -/
def alphaLe : Str → Str → Bool
  | [], _ => true
  | _ :: _, [] => false
  | a :: as, b :: bs => if a = b then alphaLe as bs else decide (a.toNat < b.toNat)

/-- row `a` comes no later than row `b`: higher frequency first, ties alphabetically -/
def before (a b : Str × Rat) : Bool :=
  if a.2 = b.2 then alphaLe a.1 b.1 else decide (b.2 < a.2)

def insertSorted (x : Str × Rat) : List (Str × Rat) → List (Str × Rat)
  | [] => [x]
  | y :: ys => if before x y then x :: y :: ys else y :: insertSorted x ys

/-- insertion sort -/
def isort : List (Str × Rat) → List (Str × Rat)
  | [] => []
  | x :: xs => insertSorted x (isort xs)

/-- the distinct elements of a list -/
def distinct : List Str → List Str
  | [] => []
  | a :: l => if a ∈ l then distinct l else a :: distinct l

/-- **TopKWordNGrams, whole table**: every n-gram with a positive count, with its frequency, most
frequent first, ties alphabetically -/
def ngramTable (n : Nat) (firstOnly countDup : Bool) (texts : List Str) : List (Str × Rat) :=
  isort (((distinct (candidates n texts)).filter fun g => 0 < ngramCount n firstOnly countDup g texts).map
    fun g => (g, freqOf (ngramCount n firstOnly countDup g texts) texts.length))

/-- **TopKWordNGrams**: the first `k` rows of the table (all of them if there are fewer) -/
def topKWordNGrams (k n : Nat) (firstOnly countDup : Bool) (texts : List Str) : List (Str × Rat) :=
  (ngramTable n firstOnly countDup texts).take k

/-! ## patterns -/

/-- number of positions `i` with `t[i : i + |p|] = p` (overlaps count; `""` occurs `|t| + 1` times) -/
def patOccurrences (p t : Str) : Nat :=
  (List.range (t.length + 1)).countP fun i => i + p.length ≤ t.length ∧ (t.drop i).take p.length = p

def patPerText (countDup : Bool) (p t : Str) : Nat :=
  if countDup then patOccurrences p t else if 0 < patOccurrences p t then 1 else 0

def patCount (countDup : Bool) (p : Str) (texts : List Str) : Nat :=
  (texts.map (patPerText countDup p)).sum

/-- **PatternFrequency**: one row per pattern (also for patterns that never occur), most frequent
first, ties alphabetically; no rows at all when no text has been seen -/
def patternTable (patterns : List Str) (countDup : Bool) (texts : List Str) : List (Str × Rat) :=
  if texts = [] then []
  else isort (patterns.map fun p => (p, freqOf (patCount countDup p texts) texts.length))

/-! ## avg_alphabetical_char_count -/

/-- number of ASCII letters -/
def letters (t : Str) : Nat := t.countP Char.isAlpha

structure MeanVar where
  count : Nat
  mean : Rat
  var : Rat

/-- mean and population variance `E[x²] − E[x]²` of the letter counts of a non-empty list of texts -/
def letterStats (texts : List Str) : MeanVar :=
  let n : Rat := (texts.length : Rat)
  let s1 : Rat := ((texts.map letters).sum : Nat)
  let s2 : Rat := ((texts.map fun t => letters t * letters t).sum : Nat)
  { count := texts.length, mean := s1 / n, var := s2 / n - (s1 / n) * (s1 / n) }

end MlModel.Spec.Text
