import MlModel.Model.Lazy
/-!
# Model of remote evaluation: `CourierServer._maybe_make` + `CourierClient.get_result` + remote handles

Anchors: `chainables/courier_server.py` (`_maybe_make` 174-226, `_init_iterator` 394-398),
`utils/courier_utils.py` (`get_result` 667-683, `_result_or_exception` 659-665, `is_timeout` 407-409,
`RemoteObject` 210-292, `RemoteIteratorQueue` 295-344, `RemoteIterator` 347-379), over the model of
`chainables/lazy_fns.py` in `Model/Lazy.lean` (C17).

* `Exc`    – an exception *instance* at the granularity the protocol can see: type, message, the
             `code` attribute that `is_timeout` inspects, and `args` (what `StopIteration` carries).
* `PVal`   – what `maybe_make` can return: a value of the C17 model, an exception instance *as a
             value* (e.g. `trace(ValueError)('boom')` evaluates to one), or a list (`get_batch`).
* `Prog`   – the lazy programs a client sends.  `expr e` is any C17 expression tree (calls, attrs,
             items, cached / lazy results, handles); the others stand for traced calls whose callee
             is outside the C17 callable library: a constructor of an exception instance, a function
             that raises an arbitrary exception, a generator / queue constructor with
             `lazy_result_=True`, `iter(H)` with `lazy_result_=True` (`RemoteObject.__iter__`),
             `next(H)` (`RemoteIterator.__next__`), `H.get()` / `H.get_batch()`
             (`RemoteIteratorQueue.get/get_batch`).  `H` is a handle: only its id is in the program.
* `run`    – **local evaluation** `lazy_fns.maybe_make(prog)` in the process whose state is `Srv`.
* `handle` – the server handler `_maybe_make` around `run`: unpickle, the three result modes,
             exception capture, shutdown substitution, pickle (+gzip flag).
* `getResult` – the client: `wait_until_alive`, the call with its transport fate, decoding
             (`_result_or_exception`) and the deadline → `TimeoutError` mapping.

The server's object store is C17's `LazyObject` cache (`Srv.lz.obj`) for plain values, plus `objs`
for the stateful objects the C17 value type cannot hold (iterators, queues); both are addressed by
the ids of one counter (`lz.nextId` = `_increment_id`).  Modelled-not-verified: cloudpickle and gzip
are a structural copy (`dumps`/`loads`), the transport delivers a call at most once with one of the
fates of `Fate`; the stateful objects do not take part in the LRU bound of the cache (capacity 1024,
never reached by the correspondence).
-/
namespace MlModel.Remote
open MlModel MlModel.Lazy

/-! ## Exceptions and values as the protocol sees them -/

structure Exc where
  kind : Err
  /-- `str(e)` for ordinary exceptions -/
  msg : String := ""
  /-- `getattr(e, 'code', 0)` (courier_utils.py:409) -/
  code : Nat := 0
  /-- `e.args` of a `StopIteration` (the generator's return value / the queue's `returned`) -/
  args : List Val := []
  deriving DecidableEq, Repr, Inhabited

/-- an error of the C17 evaluator (its message is not modelled there) -/
def Exc.ofErr (e : Err) : Exc := { kind := e }

def stopExc (args : List Val) : Exc := { kind := .py .stop, args := args }

/-- courier_server.py:218 -/
def shutdownExc : Exc :=
  { kind := .py .timeout, msg := "Shutdown requested, the worker is shutting down." }
/-- courier_server.py:398 -/
def initShutdownExc : Exc :=
  { kind := .py .timeout, msg := "Shutdown requested, cannot take new generator." }
/-- courier_utils.py:680 (the text after the prefix names the client and a clock reading) -/
def tryLongerExc : Exc := { kind := .py .timeout, msg := "Try longer timeout on" }
/-- the transport's deadline error: `StatusNotOk` with `code == 4` -/
def deadlineStatus : Exc := { kind := .py .other, msg := "Deadline Exceeded", code := 4 }
/-- the transport's non-deadline error (`code == 2`) -/
def appStatus : Exc := { kind := .py .other, msg := "application error", code := 2 }
/-- courier_utils.py:612 -/
def connectExc : Exc := { kind := .py .runtime, msg := "Failed to connect to worker" }
/-- courier_utils.py:673 -/
def disconnectedExc : Exc := { kind := .py .runtime, msg := "Worker disconnected" }
/-- gzip refusing a reply that was not compressed -/
def notGzipExc : Exc := { kind := .py .other, msg := "Not a gzipped file" }

inductive PVal where
  | plain (v : Val)
  /-- an exception instance held as an ordinary value -/
  | exc (x : Exc)
  /-- a Python list of values (`get_batch`) -/
  | list (xs : List Val)
  deriving DecidableEq, Repr, Inhabited

def PVal.isExc : PVal → Bool
  | .exc _ => true
  | _ => false

abbrev Outcome := Except Exc PVal

/-! ## Stateful server-side objects -/

/-- How an iterator / a queue ends: `StopIteration(*ret)` or a failure. -/
inductive Fin where
  | stop (ret : List Val)
  | fail (x : Exc)
  deriving DecidableEq, Repr, Inhabited

def Fin.exc : Fin → Exc
  | .stop r => stopExc r
  | .fail x => x

/-- A Python iterator (generator object or builtin iterator): the elements still to come and the
way it ends.  After the end was signalled once it answers a bare `StopIteration` for ever. -/
structure Gen where
  items : List Val
  fin : Fin
  deriving DecidableEq, Repr, Inhabited

/-- `next(g)` -/
def genNext (g : Gen) : Except Exc Val × Gen :=
  match g.items with
  | a :: rest => (.ok a, { g with items := rest })
  | [] => (.error g.fin.exc, { items := [], fin := .stop [] })

/-- An `IteratorQueue` whose enqueuers have finished (sequential view): the buffered elements and
`fin` = `StopIteration(*returned)` or the producer's exception. -/
structure QObj where
  buf : List Val
  fin : Fin
  deriving DecidableEq, Repr, Inhabited

/-- `IteratorQueue.get()` (iter_utils.py:681-699) on a finished queue: the end is raised again by
every later call (`get_nowait` 613-614). -/
def qGet (q : QObj) : Except Exc Val × QObj :=
  match q.buf with
  | a :: rest => (.ok a, { q with buf := rest })
  | [] => (.error q.fin.exc, q)

/-- `IteratorQueue.get_batch()` (iter_utils.py:628-679, `block=False`) on a finished queue.  As
coded, meeting the producer's exception after some elements were dequeued drops them (finding F7 of
C15; no C14 theorem depends on that branch). -/
def qGetBatch (maxBatch : Nat) (q : QObj) : Except Exc (List Val) × QObj :=
  match q.buf with
  | [] => (.error q.fin.exc, q)
  | _ :: _ =>
    if maxBatch ≤ q.buf.length then (.ok (q.buf.take maxBatch), { q with buf := q.buf.drop maxBatch })
    else match q.fin with
      | .stop _ => (.ok q.buf, { q with buf := [] })
      | .fail x => (.error x, { q with buf := [] })

inductive SObj where
  | iter (g : Gen)
  | queue (q : QObj)
  /-- a second handle to the same iterator: `iter(g) is g` -/
  | alias (target : Nat)
  deriving DecidableEq, Repr, Inhabited

abbrev Store := List (Nat × SObj)

def sGet (os : Store) (id : Nat) : Option SObj := os.lookup id

def sSet (os : Store) (id : Nat) (o : SObj) : Store :=
  os.map (fun p => if p.1 = id then (id, o) else p)

/-- the object a handle id denotes (aliases are one step deep by construction) -/
def resolve (os : Store) (id : Nat) : Nat :=
  match sGet os id with
  | some (.alias t) => t
  | _ => id

/-! ## Programs -/

inductive Prog where
  | expr (e : Expr)
  | excValue (x : Exc)
  | raise (x : Exc)
  | mkGen (items : List Val) (fin : Fin)
  | mkQueue (buf : List Val) (fin : Fin)
  | iterOf (id : Nat)
  | next (id : Nat)
  | qget (id : Nat)
  | qbatch (id : Nat)
  deriving DecidableEq, Repr, Inhabited

/-! ## The process state and local evaluation -/

structure Srv where
  /-- state of `lazy_fns` in the process: world, `LazyFn` cache, `LazyObject` cache, id counter -/
  lz : St
  objs : Store := []
  /-- `CourierServer._shutdown_requested` -/
  shutdown : Bool := false
  /-- submitted to the server's thread pool by `return_immediately`, not yet run -/
  bg : List Prog := []
  /-- `IteratorQueue._max_batch_size` (`_MAX_BATCH_SIZE = 4096`) -/
  maxBatch : Nat := 4096
  deriving Repr

def Srv.init (fnMax objMax : Nat) : Srv := { lz := St.init fnMax objMax }

/-- `LazyObject.new(obj)` of `lazy_result_=True` for a stateful object: a fresh id from the shared
counter; the client-visible result is the handle. -/
def allocObj (o : SObj) (srv : Srv) : Outcome × Srv :=
  let id := srv.lz.nextId
  (.ok (.plain (.handle id)),
   { srv with lz := { srv.lz with nextId := id + 1 }, objs := srv.objs ++ [(id, o)] })

def liftLazy (r : Except Err RVal) : Outcome :=
  match r with
  | .ok rv => .ok (.plain rv.1)
  | .error e => .error (Exc.ofErr e)

/-- `maybe_make` of a C17 expression -/
def runExpr (e : Expr) (srv : Srv) : Outcome × Srv :=
  let r := maybeMake e srv.lz
  (liftLazy r.1, { srv with lz := r.2 })

/-- a request meant for a stateful object whose id is not one: the id is dereferenced in the
`LazyObject` cache (`_maybe_make(H)`: missing → `LazyObjectMissingError`) and the plain value found
there does not support the operation (`k`: `TypeError` for `next`, `AttributeError` for `.get`) -/
def plainFallback (id : Nat) (k : ErrKind) (srv : Srv) : Outcome × Srv :=
  match objGet id srv.lz with
  | (.error e, lz') => (.error (Exc.ofErr e), { srv with lz := lz' })
  | (.ok _, lz') => (.error (Exc.ofErr (.py k)), { srv with lz := lz' })

/-- `iter(value)` of a plain value held in the `LazyObject` cache, as a new server-side iterator -/
def iterPlain (id : Nat) (srv : Srv) : Outcome × Srv :=
  match objGet id srv.lz with
  | (.error e, lz') => (.error (Exc.ofErr e), { srv with lz := lz' })
  | (.ok (.tup xs, _), lz') => allocObj (.iter ⟨xs, .stop []⟩) { srv with lz := lz' }
  | (.ok (.str s, _), lz') =>
    allocObj (.iter ⟨s.toList.map (fun c => .str (String.singleton c)), .stop []⟩) { srv with lz := lz' }
  | (.ok _, lz') => (.error (Exc.ofErr (.py .type)), { srv with lz := lz' })   -- not iterable

/-- `trace(iter)(H, lazy_result_=True)` -/
def runIterOf (id : Nat) (srv : Srv) : Outcome × Srv :=
  match sGet srv.objs (resolve srv.objs id) with
  | some (.iter _) => allocObj (.alias (resolve srv.objs id)) srv       -- iter(generator) is the generator
  | some _ => (.error (Exc.ofErr .outOfModel), srv)
  | none => iterPlain id srv

/-- `trace(next)(H)` -/
def runNext (id : Nat) (srv : Srv) : Outcome × Srv :=
  match sGet srv.objs (resolve srv.objs id) with
  | some (.iter g) =>
    ((genNext g).1.map .plain, { srv with objs := sSet srv.objs (resolve srv.objs id) (.iter (genNext g).2) })
  | some _ => (.error (Exc.ofErr (.py .type)), srv)        -- not an iterator
  | none => plainFallback id .type srv

/-- `H.get()` -/
def runQGet (id : Nat) (srv : Srv) : Outcome × Srv :=
  match sGet srv.objs id with
  | some (.queue q) => ((qGet q).1.map .plain, { srv with objs := sSet srv.objs id (.queue (qGet q).2) })
  | some _ => (.error (Exc.ofErr (.py .attr)), srv)        -- no attribute `get`
  | none => plainFallback id .attr srv

/-- `H.get_batch()` -/
def runQBatch (id : Nat) (srv : Srv) : Outcome × Srv :=
  match sGet srv.objs id with
  | some (.queue q) =>
    ((qGetBatch srv.maxBatch q).1.map .list,
     { srv with objs := sSet srv.objs id (.queue (qGetBatch srv.maxBatch q).2) })
  | some _ => (.error (Exc.ofErr (.py .attr)), srv)
  | none => plainFallback id .attr srv

/-- `lazy_fns.maybe_make(prog)` in the process `srv`. -/
def run (p : Prog) (srv : Srv) : Outcome × Srv :=
  match p with
  | .expr e => runExpr e srv
  | .excValue x => (.ok (.exc x), srv)
  | .raise x => (.error x, srv)
  | .mkGen items fin => allocObj (.iter ⟨items, fin⟩) srv
  | .mkQueue buf fin => allocObj (.queue ⟨buf, fin⟩) srv
  | .iterOf id => runIterOf id srv
  | .next id => runNext id srv
  | .qget id => runQGet id srv
  | .qbatch id => runQBatch id srv

/-! ## Pickling: structural copy.  A handle travels as its id (`WVal.href`), nothing else. -/

structure WExc where
  kind : Err
  msg : String
  code : Nat
  args : List WVal
  deriving Repr

def Exc.dumps (x : Exc) : WExc := ⟨x.kind, x.msg, x.code, Val.dumpsL x.args⟩
def WExc.loads (w : WExc) : Exc := ⟨w.kind, w.msg, w.code, WVal.loadsL w.args⟩

inductive WFin where
  | stop (ret : List WVal)
  | fail (x : WExc)
  deriving Repr

def Fin.dumps : Fin → WFin
  | .stop r => .stop (Val.dumpsL r)
  | .fail x => .fail x.dumps
def WFin.loads : WFin → Fin
  | .stop r => .stop (WVal.loadsL r)
  | .fail x => .fail x.loads

inductive WProg where
  | expr (w : Wire)
  | excValue (x : WExc)
  | raise (x : WExc)
  | mkGen (items : List WVal) (fin : WFin)
  | mkQueue (buf : List WVal) (fin : WFin)
  | iterOf (id : Nat)
  | next (id : Nat)
  | qget (id : Nat)
  | qbatch (id : Nat)
  deriving Repr

def Prog.dumps : Prog → WProg
  | .expr e => .expr e.dumps
  | .excValue x => .excValue x.dumps
  | .raise x => .raise x.dumps
  | .mkGen items fin => .mkGen (Val.dumpsL items) fin.dumps
  | .mkQueue buf fin => .mkQueue (Val.dumpsL buf) fin.dumps
  | .iterOf id => .iterOf id
  | .next id => .next id
  | .qget id => .qget id
  | .qbatch id => .qbatch id

def WProg.loads : WProg → Prog
  | .expr w => .expr w.loads
  | .excValue x => .excValue x.loads
  | .raise x => .raise x.loads
  | .mkGen items fin => .mkGen (WVal.loadsL items) fin.loads
  | .mkQueue buf fin => .mkQueue (WVal.loadsL buf) fin.loads
  | .iterOf id => .iterOf id
  | .next id => .next id
  | .qget id => .qget id
  | .qbatch id => .qbatch id

/-- pickled results -/
inductive WPVal where
  | plain (w : WVal)
  | exc (x : WExc)
  | list (ws : List WVal)
  deriving Repr

def PVal.dumps : PVal → WPVal
  | .plain v => .plain v.dumps
  | .exc x => .exc x.dumps
  | .list xs => .list (Val.dumpsL xs)

def WPVal.loads : WPVal → PVal
  | .plain w => .plain w.loads
  | .exc x => .exc x.loads
  | .list ws => .list (WVal.loadsL ws)

/-! ## The server handler `CourierServer._maybe_make` (courier_server.py:174-226) -/

structure Request where
  wire : WProg
  returnException : Bool := false
  compress : Bool := false
  returnImmediately : Bool := false
  returnNone : Bool := false
  deriving Repr

inductive Reply where
  /-- `self._return_pickled(result, compress=compress)` -/
  | payload (w : WPVal) (gz : Bool)
  /-- the handler raised (`return_exception=False`): the transport reports a failed call -/
  | raised (x : Exc)
  deriving Repr

def handle (rq : Request) (srv : Srv) : Reply × Srv :=
  let prog := rq.wire.loads                                   -- lazy_fns.maybe_unpickle (203)
  let r : Outcome × Srv :=
    if rq.returnImmediately then                              -- 207-209: thread pool, result None
      (.ok (.plain .none), { srv with bg := srv.bg ++ [prog] })
    else
      let o := run prog srv
      if rq.returnNone then (o.1.map (fun _ => .plain .none), o.2)    -- 210-213
      else o                                                   -- 215
  match r.1 with
  | .ok v => (.payload v.dumps rq.compress, r.2)              -- 226
  | .error x =>
    let x := if r.2.shutdown then shutdownExc else x          -- 217-218
    if !rq.returnException then (.raised x, r.2)              -- 219-220
    else (.payload (.exc x.dumps) rq.compress, r.2)           -- 221, 226

/-- one task of the server's thread pool (`self._thread_pool.submit(lazy_fns.maybe_make, ..)`);
its outcome is discarded -/
def runBg (srv : Srv) : Srv :=
  match srv.bg with
  | [] => srv
  | p :: rest => (run p { srv with bg := rest }).2

/-- `CourierServer._request_shutdown` (139-157) -/
def requestShutdown (srv : Srv) : Srv := { srv with shutdown := true }

/-- `PrefetchedCourierServer._init_iterator` (394-398): what the call answers.  Once shutdown is
requested it *returns* a `TimeoutError` instance and takes no generator. -/
inductive InitReply where
  | refused (x : Exc)
  | accepted
  | raised (x : Exc)
  deriving DecidableEq, Repr

def initIterator (w : WProg) (srv : Srv) : InitReply × Srv :=
  if srv.shutdown then (.refused initShutdownExc, srv)
  else
    let r := run w.loads srv
    match r.1 with
    | .ok _ => (.accepted, r.2)        -- (prefetching itself is the subject of C15)
    | .error x => (.raised x, r.2)

/-! ## Calls in flight

Handlers run on the transport's server threads, so a request is not atomic with respect to other
requests and to the shutdown request.  What matters to the protocol is *when the handler looks at the
shutdown flag*: in the `except` clause, i.e. at the moment the evaluation fails (courier_server.py:217),
not when the request arrives.  The handler is therefore two steps — `start` (the request has arrived and
is being evaluated, possibly blocked) and `finish` (the evaluation ends and the reply is built from the
state *at that moment*) — and other steps may happen in between. -/

inductive Step where
  | start (id : Nat) (rq : Request)
  | finish (id : Nat)
  /-- `_request_shutdown` (signal, `shutdown` method, `stop()`) -/
  | shutdown
  /-- one task of the server's thread pool -/
  | bg
  deriving Repr

structure Sys where
  srv : Srv
  /-- requests whose handler has started and not finished -/
  inflight : List (Nat × Request) := []
  /-- replies sent, in order -/
  replies : List (Nat × Reply) := []
  deriving Repr

def Sys.step (s : Sys) : Step → Sys
  | .start id rq => { s with inflight := s.inflight ++ [(id, rq)] }
  | .finish id =>
    match s.inflight.lookup id with
    | none => s
    | some rq =>
      let r := handle rq s.srv
      { srv := r.2, inflight := s.inflight.filter (fun p => p.1 != id), replies := s.replies ++ [(id, r.1)] }
  | .shutdown => { s with srv := requestShutdown s.srv }
  | .bg => { s with srv := runBg s.srv }

def Sys.run (s : Sys) (steps : List Step) : Sys := steps.foldl Sys.step s

/-! ## The client `CourierClient.get_result` (courier_utils.py:659-683) -/

/-- What the transport does with one call (the courier contract; mirrored by the fake's fault plan). -/
inductive Fate where
  | ok             -- handler runs once, the reply arrives
  | deadline       -- handler does not run, the call fails with code 4
  | deadlineAfter  -- handler runs once, the reply is dropped, the call fails with code 4
  | appError       -- handler does not run, the call fails with a non-deadline status
  | lost           -- the server became unreachable: the call never completes
  deriving DecidableEq, Repr

structure Env where
  /-- `wait_until_alive()` succeeds (667) -/
  alive0 : Bool := true
  fate : Fate := .ok
  /-- `self.is_alive` when a failed call is examined (679) -/
  aliveAtError : Bool := true
  deriving DecidableEq, Repr

/-- What the caller of `get_result` holds: a plain result, or a `RemoteObject` — a handle that
carries the object's id (and the client configuration), never its value. -/
inductive CRes where
  | val (v : PVal)
  | remote (id : Nat)
  deriving DecidableEq, Repr

/-- how a locally returned object corresponds to what a client holds: a top-level `LazyObject`
handle becomes a `RemoteObject` with the same id -/
def wrap : PVal → CRes
  | .plain (.handle id) => .remote id
  | v => .val v

/-- the `except` clause of `get_result` (677-683) applied to an exception raised while obtaining the reply
(`future.result()`) -/
def onError (env : Env) (x : Exc) : Exc :=
  if x.code = 4 then (if env.aliveAtError then tryLongerExc else x) else x

/-- `future.result()` inside the `try` of `get_result` (only a failure of the call itself goes through
the `except` clause — repaired, finding C14-F2), then `_result_or_exception` (659-665) outside it: an
exception the server evaluated and sent back is re-raised unchanged. -/
def decode (env : Env) (rep : Reply) : Except Exc CRes :=
  match rep with
  | .raised x => .error (onError env { appStatus with msg := x.msg })   -- future.result() raises StatusNotOk
  | .payload _ false => .error notGzipExc                       -- loadz of an uncompressed reply
  | .payload w true =>
    match w.loads with
    | .exc x => .error x                                        -- isinstance(result, Exception): raise
    | .plain (.handle id) => .ok (.remote id)                   -- LazyObject: RemoteObject.new
    | v => .ok (.val v)

def getRequest (p : Prog) : Request :=
  { wire := p.dumps, returnException := true, compress := true }

/-- An error raised while the program is *traced*, on the client, before anything is sent:
`LazyObject.__call__` refuses `cache_result_` together with `lazy_result_` (lazy_fns.py:381-385). -/
def Prog.traceError : Prog → Option Exc
  | .expr e => if e.badFlags then some (Exc.ofErr (.py .value)) else none
  | _ => none

def getResult (p : Prog) (env : Env) (srv : Srv) : Except Exc CRes × Srv :=
  match p.traceError with
  | some x => (.error x, srv)
  | none =>
  if !env.alive0 then (.error connectExc, srv) else
  match env.fate with
  | .ok =>
    let r := handle (getRequest p) srv
    (decode env r.1, r.2)
  | .deadline => (.error (onError env deadlineStatus), srv)
  | .deadlineAfter => (.error (onError env deadlineStatus), (handle (getRequest p) srv).2)
  | .appError => (.error (onError env appStatus), srv)
  | .lost => (.error disconnectedExc, srv)

/-! ## Operations on a remote handle (`RemoteObject`, courier_utils.py:267-279)

Each builds a new lazy expression over the server-side id; nothing is sent until `result_()`. -/

inductive Link where
  | attr (name : String)
  | item (key : Val)
  | call (args : List Val) (kw : List (String × Val))
  deriving Repr

def constArgs (vs : List Val) : List Expr := vs.map .const
def constKw (kvs : List (String × Val)) : List (String × Expr) := kvs.map (fun p => (p.1, .const p.2))

def applyLink (x : Expr) : Link → Expr
  | .attr n => x.getattr n                                       -- RemoteObject.__getattr__
  | .item k => x.getitem k                                       -- RemoteObject.__getitem__
  | .call args kw => .call x (constArgs args) (constKw kw) false false   -- RemoteObject.__call__

def chain (x : Expr) (ls : List Link) : Expr := ls.foldl applyLink x

/-- `handle.<links>.result_()` -/
def handleResult (id : Nat) (ls : List Link) (env : Env) (srv : Srv) : Except Exc CRes × Srv :=
  getResult (.expr (chain (.const (.handle id)) ls)) env srv

/-- value and world of a library call; the identity of the result plays no role here -/
def strip (r : Except Err RVal × World) : Except Err Val × World := (r.1.map (·.1), r.2)

/-- The same link applied to a local object by ordinary Python evaluation (no laziness at all):
`getattr(v, n)`, `v[k]`, `v(*args, **kw)`. -/
def localLink (v : Val) (l : Link) (w : World) : Except Err Val × World :=
  match l with
  | .attr n => strip (applyLib "getattr" [(v, 0), (.str n, 0)] [] w)
  | .item k => strip (applyLib "getitem" [(v, 0), (k, 0)] [] w)
  | .call args kw =>
    match v with
    | .fn name => strip (applyLib name (args.map (fun a => (a, 0))) (kw.map (fun p => (p.1, (p.2, 0)))) w)
    | _ => (.error (.py .type), w)                              -- not callable

def localChain (v : Val) (ls : List Link) (w : World) : Except Err Val × World :=
  match ls with
  | [] => (.ok v, w)
  | l :: rest =>
    match localLink v l w with
    | (.ok v', w') => localChain v' rest w'
    | (.error e, w') => (.error e, w')

/-! ## Iterating remotely -/

/-- `k` successive `next(remote_iterator)` calls (each a `get_result`), fault-free. -/
def remoteNexts (id : Nat) : Nat → Srv → List (Except Exc CRes) × Srv
  | 0, srv => ([], srv)
  | k + 1, srv =>
    let r := getResult (.next id) {} srv
    let rest := remoteNexts id k r.2
    (r.1 :: rest.1, rest.2)

/-- `k` successive `remote_queue.get()` calls. -/
def remoteGets (id : Nat) : Nat → Srv → List (Except Exc CRes) × Srv
  | 0, srv => ([], srv)
  | k + 1, srv =>
    let r := getResult (.qget id) {} srv
    let rest := remoteGets id k r.2
    (r.1 :: rest.1, rest.2)

end MlModel.Remote
