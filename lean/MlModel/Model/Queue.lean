import MlModel.Model.Basic
/-!
# Labelled transition system of `iter_utils.IteratorQueue`
(ml_metrics/_src/utils/iter_utils.py, class `IteratorQueue`, with the repair of finding F6:
`_stop_enqueue` also wakes parked producers when enqueueing becomes done.)

One atomic step = one synchronisation operation of the real code (exactly the yield points of
`harness/sched/shim.py`): `acquire`/`release` of the three locks, `Condition.wait` (release +
park), the wake-up (re-acquire after a notify, or after a timeout), `notify`/`notify_all`,
`queue.get_nowait`/`put_nowait`/`empty`, and `next(it)` of a producer's source iterator.  The
thread-local straight-line code that follows an operation (including reads/writes of the plain
shared attributes `_exception`, `_exhausted`, `_enqueue_start/_stop`, `_max_enqueuer`, which the
GIL makes atomic) is fused into that step.

Names used in labels (they are the names the shim gives the objects, in creation order):
`q1` = `_queue`, `cond1` = `_dequeue_lock`, `cond2` = `_enqueue_lock`, `rlock1` = `_states_lock`.

Threads run one of four programs:
* `producer src ret`   — `enqueue_from_iterator(src)`; `src` is a list of items (`val v` or `fail`),
                         after which the iterator returns `ret` (`StopIteration(ret)`);
* `getLoop`            — `while True: received.append(q.get())` until `get` raises;
* `batchLoop max block`— `while True: received.extend(q.get_batch(max, block=block))` until it raises
                         (this is `DequeueIterator` when `max` is the queue's max batch size);
* `stopper exc`        — one call of `maybe_stop(exc)` (`none` = no exception = `StopIteration`).
-/
namespace MlModel.Queue

abbrev Tid := Nat

/-- A queue element: the value together with a ghost tag, the producer thread that enqueued it
(the tag travels with the value; the real queue only holds the value). -/
abbrev Elem := Tid × Nat

inductive Item where
  | val (v : Nat)
  | fail
  deriving DecidableEq, Repr, Inhabited

/-- What a call raises. `empty` is `queue.Empty` (internal to the queue). -/
inductive Raise where
  | empty
  | stop (rets : List Nat)       -- StopIteration(*returned)
  | err (e : ErrKind)            -- the producer's exception / TimeoutError / AssertionError
  deriving DecidableEq, Repr, Inhabited

inductive Prog where
  | producer (src : List Item) (ret : Nat)
  | getLoop
  | batchLoop (max : Nat) (block : Bool)
  | stopper (exc : Option ErrKind)
  deriving DecidableEq, Repr, Inhabited

/-- caller of `get_nowait` -/
inductive Caller where
  | get | batch
  deriving DecidableEq, Repr, Inhabited

inductive Pc where
  | start | done
  -- get_nowait (iter_utils.py:594-617)
  | nAcq (c : Caller) | nGet (c : Caller) | nEmp (c : Caller)
  | nNaOk (c : Caller) | nNaErr (c : Caller) | nRelOk (c : Caller) | nRelErr (c : Caller)
  -- get (677-691)
  | gAcq | gR0 | gR1 | gR2 | gR3 | gR4 | gRet | gWait | gWake | gRaise
  -- get_batch (619-675)
  | bAcq | bR0 | bR1 | bR2 | bR3 | bR4 | bEmp | bWait | bWake | bRaise | bExit | bE1 | bE2 | bE3
  -- enqueue_from_iterator (773-795) / _start_enqueue (724-727)
  | sAcq | sRel | eNext
  -- put (702-722) / put_nowait (693-700)
  | pAcq | pPut | pStAcq | pStRel | pR0 | pR1 | pR2 | pR3 | pR4 | pRet | pWait | pWake | pRaiseT | pExit
  -- _stop_enqueue (729-747)
  | tAcq | tR0 | tR1 | tR2 | tR3 | tR4 | tS0 | tS1 | tS2 | tS3 | tS4 | tRel
  -- maybe_stop (749-771)
  | mAcq | mRel | mE0 | mE1 | mE2 | mD0 | mD1 | mD2
  deriving DecidableEq, Repr, Inhabited

structure Thread where
  prog : Prog
  pc : Pc := .start
  /-- producer: remaining source items -/
  src : List Item := []
  /-- value in hand (just dequeued / about to be enqueued) -/
  v : Elem := (0, 0)
  /-- exception in flight -/
  x : Raise := .empty
  /-- `_stop_enqueue` arguments -/
  rets : List Nat := []
  /-- producer: re-raise after `_stop_enqueue` -/
  reraise : Option ErrKind := none
  /-- `get_batch`'s `result` -/
  result : List Elem := []
  /-- ghost: everything delivered to this consumer, in order -/
  received : List Elem := []
  /-- how the thread ended: consumers — the exception that ended the loop; producers — `some (err e)`
  if `enqueue_from_iterator` raised, `none` if it returned; stopper — `some (err assertion)` or none -/
  outcome : Option Raise := none
  deriving Repr, Inhabited

structure Shared where
  q : List Elem := []
  /-- 0 = unbounded (`SimpleQueue`) -/
  cap : Nat := 0
  deqOwner : Option Tid := none
  enqOwner : Option Tid := none
  stOwner : Option Tid := none
  /-- parked on the condition, FIFO -/
  deqWait : List Tid := []
  enqWait : List Tid := []
  /-- notified, not yet re-acquired -/
  deqNotified : List Tid := []
  enqNotified : List Tid := []
  exc : Option ErrKind := none
  exhausted : Bool := false
  /-- `_stop_requested` (repair of finding F24): set by `maybe_stop`, never cleared -/
  stopRequested : Bool := false
  maxEnq : Nat := 0
  start : Nat := 0
  stop : Nat := 0
  returned : List Nat := []
  progress : Nat := 0
  /-- is `timeout` configured (not None)? -/
  timeout : Bool := false
  ignoreError : Bool := false
  /-- do the `get_batch` callers of this queue pass `keep_partial=True` (repair of finding F7)?  In the
  code this is an argument of the call; the only caller that passes it is the prefetching server's
  `_next_batch`, which is the only consumer of its queue, so the model keeps it per queue. -/
  keepPartial : Bool := false
  /-- ghost: every value successfully put, in put order -/
  produced : List Elem := []
  /-- ghost: every value taken out of the queue, in dequeue order -/
  dequeued : List Elem := []
  /-- ghost: values dequeued and then dropped by a raising `get_batch` -/
  lost : List Elem := []
  deriving Repr, Inhabited

structure Cfg where
  sh : Shared
  ths : List Thread
  deriving Repr, Inhabited

/-- `enqueue_done` (iter_utils.py:575-583) -/
def Shared.enqueueDone (s : Shared) : Bool :=
  if s.exc.isSome || s.stopRequested then true
  else if s.maxEnq == 0 then false
  else s.start == s.stop && s.stop == s.maxEnq

/-- `self.exception or StopIteration(*self.returned)` -/
def Shared.final (s : Shared) : Raise :=
  match s.exc with
  | some e => .err e
  | none => .stop s.returned

def Shared.full (s : Shared) : Bool := s.cap != 0 && s.q.length >= s.cap

inductive Lk where | deq | enq | st
  deriving DecidableEq, Repr

def Shared.owner (s : Shared) : Lk → Option Tid
  | .deq => s.deqOwner | .enq => s.enqOwner | .st => s.stOwner

def Shared.setOwner (s : Shared) (l : Lk) (o : Option Tid) : Shared :=
  match l with
  | .deq => { s with deqOwner := o } | .enq => { s with enqOwner := o } | .st => { s with stOwner := o }

def Lk.name : Lk → String
  | .deq => "cond1" | .enq => "cond2" | .st => "rlock1"

abbrev StepResult := Option (String × Shared × Thread)

/-- `lock.acquire()`: enabled iff free. -/
def acquire (s : Shared) (t : Thread) (tid : Tid) (l : Lk) (k : Shared → Thread → Shared × Thread) : StepResult :=
  match s.owner l with
  | some _ => none
  | none =>
    let (s', t') := k (s.setOwner l (some tid)) t
    some (s!"acquire {l.name}", s', t')

/-- `lock.release()` by the owner. -/
def release (s : Shared) (t : Thread) (tid : Tid) (l : Lk) (k : Shared → Thread → Shared × Thread) : StepResult :=
  if s.owner l == some tid then
    let (s', t') := k (s.setOwner l none) t
    some (s!"release {l.name}", s', t')
  else none

/-- `cond.notify()` (FIFO) / `notify_all()`, by the owner of the condition's lock. -/
def notify (s : Shared) (t : Thread) (tid : Tid) (l : Lk) (all : Bool)
    (k : Shared → Thread → Shared × Thread) : StepResult :=
  if s.owner l != some tid then none else
  let s1 : Shared :=
    match l, all with
    | .deq, true => { s with deqNotified := s.deqNotified ++ s.deqWait, deqWait := [] }
    | .deq, false => { s with deqNotified := s.deqNotified ++ s.deqWait.take 1, deqWait := s.deqWait.drop 1 }
    | .enq, true => { s with enqNotified := s.enqNotified ++ s.enqWait, enqWait := [] }
    | .enq, false => { s with enqNotified := s.enqNotified ++ s.enqWait.take 1, enqWait := s.enqWait.drop 1 }
    | .st, _ => s
  let (s', t') := k s1 t
  some ((if all then "notify_all " else "notify ") ++ l.name, s', t')

/-- `cond.wait()` first half: release the lock and park. -/
def waitPark (s : Shared) (t : Thread) (tid : Tid) (l : Lk) (next : Pc) : StepResult :=
  if s.owner l != some tid then none else
  let s1 := s.setOwner l none
  let s2 : Shared := match l with
    | .deq => { s1 with deqWait := s1.deqWait ++ [tid] }
    | .enq => { s1 with enqWait := s1.enqWait ++ [tid] }
    | .st => s1
  some (s!"wait {l.name}", s2, { t with pc := next })

/-- `cond.wait()` second half: re-acquire after a notify (`alt = false`) or after the timeout
fired (`alt = true`, only if a timeout is configured and the thread was not notified). -/
def waitWake (s : Shared) (t : Thread) (tid : Tid) (l : Lk) (alt : Bool)
    (kOk kTimeout : Shared → Thread → Shared × Thread) : StepResult :=
  if (s.owner l).isSome then none else
  let notified := match l with
    | .deq => s.deqNotified.contains tid | .enq => s.enqNotified.contains tid | .st => false
  if !alt then
    if !notified then none else
    let s1 := s.setOwner l (some tid)
    let s2 : Shared := match l with
      | .deq => { s1 with deqNotified := s1.deqNotified.erase tid }
      | .enq => { s1 with enqNotified := s1.enqNotified.erase tid }
      | .st => s1
    let (s', t') := kOk s2 t
    some (s!"wake {l.name}", s', t')
  else
    if !s.timeout || notified then none else
    let s1 := s.setOwner l (some tid)
    let s2 : Shared := match l with
      | .deq => { s1 with deqWait := s1.deqWait.erase tid }
      | .enq => { s1 with enqWait := s1.enqWait.erase tid }
      | .st => s1
    let (s', t') := kTimeout s2 t
    some (s!"wake {l.name}:timeout", s', t')

def goto (pc : Pc) : Shared → Thread → Shared × Thread := fun s t => (s, { t with pc := pc })

/-- head of the loop in `enqueue_from_iterator`: `while not self.enqueue_done` -/
def enqLoop (s : Shared) (t : Thread) : Shared × Thread :=
  if s.enqueueDone then (s, { t with pc := .done, outcome := none }) else (s, { t with pc := .eNext })

/-- head of the loop in `put`: `while not self.enqueue_done` (holding the enqueue lock) -/
def putLoop (s : Shared) (t : Thread) : Shared × Thread :=
  if s.enqueueDone then (s, { t with pc := .pExit }) else (s, { t with pc := .pPut })

/-- head of the loop in `get_batch`: `while len(result) < max_batch_size` (holding the dequeue lock) -/
def batchLoop (max : Nat) (s : Shared) (t : Thread) : Shared × Thread :=
  if t.result.length < max then (s, { t with pc := .nAcq .batch }) else (s, { t with pc := .bExit })

def Thread.batchMax (t : Thread) : Nat := match t.prog with | .batchLoop m _ => m | _ => 0
def Thread.batchBlock (t : Thread) : Bool := match t.prog with | .batchLoop _ b => b | _ => false

/-- what the caller of `get_nowait` does with an exception `x` -/
def afterRaise (c : Caller) (x : Raise) (s : Shared) (t : Thread) : Shared × Thread :=
  match c with
  | .get =>
    match x with
    | .empty => (s, { t with pc := .gWait })
    | _ => (s, { t with pc := .gRaise, x := x })
  | .batch =>
    match x with
    | .empty =>
      -- iter_utils.py:641-658
      if (!t.batchBlock && !t.result.isEmpty) || (t.batchBlock && t.result.length == t.batchMax) then
        (s, { t with pc := .bExit })
      else if !t.result.isEmpty then (s, { t with pc := .bR0 })
      else (s, { t with pc := .bEmp })
    | .stop _ =>
      -- iter_utils.py:659-663
      if !t.result.isEmpty then (s, { t with pc := .bExit }) else (s, { t with pc := .bRaise, x := x })
    | .err _ =>
      if s.ignoreError then (s, { t with pc := .bExit })
      -- `if keep_partial and result and self._exhausted: break` (repair of finding F7)
      else if s.keepPartial && !t.result.isEmpty && s.exhausted then (s, { t with pc := .bExit })
      else (s, { t with pc := .bRaise, x := x })

/-- what the caller of `get_nowait` does with a value -/
def afterValue (c : Caller) (s : Shared) (t : Thread) : Shared × Thread :=
  match c with
  | .get => (s, { t with pc := .gR0 })
  | .batch => batchLoop t.batchMax s { t with result := t.result ++ [t.v] }

/-- One step of thread `tid` (whose state is `t`). `alt = true` selects the timeout alternative of
a parked wait. Returns `none` when the thread's pending operation is not enabled. -/
def stepThread (s : Shared) (t : Thread) (tid : Tid) (alt : Bool) : StepResult :=
  match t.pc with
  | .done => none
  | .start =>
    if alt then none else
    match t.prog with
    | .producer src _ => some ("start", s, { t with pc := .sAcq, src := src })
    | .getLoop => some ("start", s, { t with pc := .gAcq })
    | .batchLoop _ _ => some ("start", s, { t with pc := .bAcq })
    | .stopper _ => some ("start", s, { t with pc := .mAcq })
  -- ---------------------------------------------------------------- get_nowait
  | .nAcq c => if alt then none else acquire s t tid .st (goto (.nGet c))
  | .nGet c =>
    if alt then none else
    if s.stOwner != some tid then none else
    match s.q with
    | v :: q' =>
      some ("get_nowait q1", { s with q := q', dequeued := s.dequeued ++ [v] }, { t with pc := .nEmp c, v := v })
    | [] =>
      if s.exhausted then some ("get_nowait q1", s, { t with pc := .nRelErr c, x := s.final })
      else if s.enqueueDone then
        some ("get_nowait q1", { s with exhausted := true }, { t with pc := .nNaErr c })
      else some ("get_nowait q1", s, { t with pc := .nRelErr c, x := .empty })
  | .nEmp c =>
    if alt then none else
    if s.q.isEmpty && s.enqueueDone then
      some ("empty q1", { s with exhausted := true }, { t with pc := .nNaOk c })
    else some ("empty q1", s, { t with pc := .nRelOk c })
  | .nNaOk c => if alt then none else notify s t tid .deq true (goto (.nRelOk c))
  | .nNaErr c =>
    -- `raise self.exception or StopIteration(*self.returned)` is evaluated after `_set_exhausted()`
    if alt then none else
    notify s t tid .deq true (fun s t => (s, { t with pc := .nRelErr c, x := s.final }))
  | .nRelOk c => if alt then none else release s t tid .st (afterValue c)
  | .nRelErr c => if alt then none else release s t tid .st (fun s t => afterRaise c t.x s t)
  -- ---------------------------------------------------------------- get
  | .gAcq => if alt then none else acquire s t tid .deq (goto (.nAcq .get))
  | .gR0 => if alt then none else release s t tid .deq (goto .gR1)
  | .gR1 => if alt then none else acquire s t tid .enq (goto .gR2)
  | .gR2 => if alt then none else notify s t tid .enq false (goto .gR3)
  | .gR3 => if alt then none else release s t tid .enq (goto .gR4)
  | .gR4 => if alt then none else acquire s t tid .deq (goto .gRet)
  | .gRet =>
    if alt then none else
    release s t tid .deq (fun s t => (s, { t with pc := .gAcq, received := t.received ++ [t.v] }))
  | .gWait => if alt then none else waitPark s t tid .deq .gWake
  | .gWake =>
    waitWake s t tid .deq alt (goto (.nAcq .get))
      (fun s t => (s, { t with pc := .gRaise, x := .err .timeout }))
  | .gRaise =>
    if alt then none else
    release s t tid .deq (fun s t => (s, { t with pc := .done, outcome := some t.x }))
  -- ---------------------------------------------------------------- get_batch
  | .bAcq => if alt then none else acquire s t tid .deq (fun s t => batchLoop t.batchMax s t)
  | .bR0 => if alt then none else release s t tid .deq (goto .bR1)
  | .bR1 => if alt then none else acquire s t tid .enq (goto .bR2)
  | .bR2 => if alt then none else notify s t tid .enq false (goto .bR3)
  | .bR3 => if alt then none else release s t tid .enq (goto .bR4)
  | .bR4 => if alt then none else acquire s t tid .deq (goto .bEmp)
  | .bEmp =>
    if alt then none else
    -- repaired (finding F23): `if not self._queue.empty() or self.enqueue_done: continue`
    if !s.q.isEmpty || s.enqueueDone then some ("empty q1", s, { t with pc := .nAcq .batch })
    else some ("empty q1", s, { t with pc := .bWait })
  | .bWait => if alt then none else waitPark s t tid .deq .bWake
  | .bWake =>
    waitWake s t tid .deq alt (goto (.nAcq .batch))
      (fun s t => (s, { t with pc := .bRaise, x := .err .timeout }))
  | .bRaise =>
    if alt then none else
    release s t tid .deq (fun s t =>
      ({ s with lost := s.lost ++ t.result }, { t with pc := .done, outcome := some t.x, result := [] }))
  | .bExit => if alt then none else release s t tid .deq (goto .bE1)
  | .bE1 => if alt then none else acquire s t tid .enq (goto .bE2)
  | .bE2 => if alt then none else notify s t tid .enq false (goto .bE3)
  | .bE3 =>
    if alt then none else
    release s t tid .enq (fun s t =>
      (s, { t with pc := .bAcq, received := t.received ++ t.result, result := [] }))
  -- ---------------------------------------------------------------- enqueue_from_iterator
  | .sAcq =>
    if alt then none else
    acquire s t tid .st (fun s t =>
      let st := s.start + 1
      ({ s with start := st, maxEnq := max s.maxEnq st }, { t with pc := .sRel }))
  | .sRel => if alt then none else release s t tid .st enqLoop
  | .eNext =>
    if alt then none else
    match t.src with
    | .val v :: rest => some ("next", s, { t with pc := .pAcq, v := (tid, v), src := rest })
    | .fail :: rest =>
      if s.ignoreError then
        let (s', t') := enqLoop s { t with src := rest }
        some ("next", s', t')
      else
        -- `self._exception = e` (unlocked write), then `_stop_enqueue()`, then `raise e`
        some ("next", { s with exc := some .value },
          { t with pc := .tAcq, src := rest, rets := [], reraise := some .value })
    | [] =>
      let r := match t.prog with | .producer _ r => r | _ => 0
      some ("next", s, { t with pc := .tAcq, rets := [r], reraise := none })
  -- ---------------------------------------------------------------- put
  | .pAcq => if alt then none else acquire s t tid .enq putLoop
  | .pPut =>
    if alt then none else
    if s.enqOwner != some tid then none else
    if s.full then
      if s.enqueueDone then some ("put_nowait q1", s, { t with pc := .pExit })
      else some ("put_nowait q1", s, { t with pc := .pWait })
    else
      some ("put_nowait q1", { s with q := s.q ++ [t.v], produced := s.produced ++ [t.v] },
        { t with pc := .pStAcq })
  | .pStAcq => if alt then none else acquire s t tid .st (fun s t => ({ s with progress := s.progress + 1 }, { t with pc := .pStRel }))
  | .pStRel => if alt then none else release s t tid .st (goto .pR0)
  | .pR0 => if alt then none else release s t tid .enq (goto .pR1)
  | .pR1 => if alt then none else acquire s t tid .deq (goto .pR2)
  | .pR2 => if alt then none else notify s t tid .deq false (goto .pR3)
  | .pR3 => if alt then none else release s t tid .deq (goto .pR4)
  | .pR4 => if alt then none else acquire s t tid .enq (goto .pRet)
  | .pRet => if alt then none else release s t tid .enq enqLoop
  | .pWait => if alt then none else waitPark s t tid .enq .pWake
  | .pWake => waitWake s t tid .enq alt putLoop (goto .pRaiseT)
  | .pRaiseT =>
    if alt then none else
    release s t tid .enq (fun s t =>
      if s.ignoreError then enqLoop s t
      else ({ s with exc := some .timeout }, { t with pc := .tAcq, rets := [], reraise := some .timeout }))
  | .pExit => if alt then none else release s t tid .enq enqLoop
  -- ---------------------------------------------------------------- _stop_enqueue
  | .tAcq =>
    if alt then none else
    acquire s t tid .st (fun s t =>
      let s1 : Shared := { s with stop := min (s.stop + 1) s.start, returned := s.returned ++ t.rets }
      if s1.enqueueDone then (s1, { t with pc := .tR0 }) else (s1, { t with pc := .tRel }))
  | .tR0 => if alt then none else release s t tid .st (goto .tR1)
  | .tR1 => if alt then none else acquire s t tid .deq (goto .tR2)
  | .tR2 => if alt then none else notify s t tid .deq true (goto .tR3)
  | .tR3 => if alt then none else release s t tid .deq (goto .tR4)
  | .tR4 => if alt then none else acquire s t tid .st (goto .tS0)
  | .tS0 => if alt then none else release s t tid .st (goto .tS1)
  | .tS1 => if alt then none else acquire s t tid .enq (goto .tS2)
  | .tS2 => if alt then none else notify s t tid .enq true (goto .tS3)
  | .tS3 => if alt then none else release s t tid .enq (goto .tS4)
  | .tS4 => if alt then none else acquire s t tid .st (goto .tRel)
  | .tRel =>
    if alt then none else
    release s t tid .st (fun s t => (s, { t with pc := .done, outcome := t.reraise.map Raise.err }))
  -- ---------------------------------------------------------------- maybe_stop
  | .mAcq =>
    if alt then none else
    acquire s t tid .st (fun s t =>
      let e := match t.prog with | .stopper e => e | _ => none
      let s1 : Shared := { s with stopRequested := true, stop := s.maxEnq, start := s.maxEnq,
                                  exc := match e with | some x => some x | none => s.exc }
      (s1, { t with pc := .mRel }))
  | .mRel =>
    if alt then none else
    release s t tid .st (fun s t =>
      -- `assert self.enqueue_done` fails inside the `with`, so the lock is released, then it propagates
      if s.enqueueDone then (s, { t with pc := .mE0 })
      else (s, { t with pc := .done, outcome := some (.err .assertion) }))
  | .mE0 => if alt then none else acquire s t tid .enq (goto .mE1)
  | .mE1 => if alt then none else notify s t tid .enq true (goto .mE2)
  | .mE2 => if alt then none else release s t tid .enq (goto .mD0)
  | .mD0 =>
    if alt then none else
    acquire s t tid .deq (fun s t =>
      let e := match t.prog with | .stopper e => e | _ => none
      (if e.isSome then { s with exhausted := true } else s, { t with pc := .mD1 }))
  | .mD1 => if alt then none else notify s t tid .deq true (goto .mD2)
  | .mD2 => if alt then none else release s t tid .deq (fun s t => (s, { t with pc := .done, outcome := none }))

/-- One scheduler choice. -/
def step (c : Cfg) (tid : Tid) (alt : Bool) : Option (String × Cfg) :=
  match c.ths[tid]? with
  | none => none
  | some t =>
    match stepThread c.sh t tid alt with
    | none => none
    | some (lbl, s', t') => some (lbl, { sh := s', ths := c.ths.set tid t' })

def init (cap maxEnq : Nat) (timeout ignoreError : Bool) (progs : List Prog) : Cfg :=
  { sh := { cap := cap, maxEnq := maxEnq, timeout := timeout, ignoreError := ignoreError },
    ths := progs.map fun p => { prog := p } }

/-- all (tid, alt) choices enabled in `c` -/
def enabled (c : Cfg) : List (Tid × Bool) :=
  (List.range c.ths.length).flatMap fun tid =>
    ([false, true].filter fun alt => (step c tid alt).isSome).map fun alt => (tid, alt)

def Cfg.allDone (c : Cfg) : Bool := c.ths.all (·.pc == .done)

/-- Replay a schedule; stops at the first choice that is not enabled. Returns the labels
executed, the final configuration and whether the whole schedule was accepted. -/
def replay : Cfg → List (Tid × Bool) → List (Tid × String) → List (Tid × String) × Cfg × Bool
  | c, [], acc => (acc.reverse, c, true)
  | c, (tid, alt) :: rest, acc =>
    match step c tid alt with
    | none => (acc.reverse, c, false)
    | some (lbl, c') => replay c' rest ((tid, lbl) :: acc)

/-- like `replay`, also recording the set of enabled choices before every step -/
def replayEnabled : Cfg → List (Tid × Bool) → List (List (Tid × Bool)) → List (List (Tid × Bool))
  | c, [], acc => (enabled c :: acc).reverse
  | c, (tid, alt) :: rest, acc =>
    match step c tid alt with
    | none => (enabled c :: acc).reverse
    | some (_, c') => replayEnabled c' rest (enabled c :: acc)

end MlModel.Queue
