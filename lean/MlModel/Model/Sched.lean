import MlModel.Model.Basic
/-!
# Task bookkeeping of the distributed runners under an adversarial environment (C06, C16)

Two labelled transition systems, both driven by an **environment** `Env` that assigns to the
*i*-th counted remote call on each worker one of `ok | deadline | die | restart | appError`
(the quantifier of property C06):

* `AC` — `orchestrate.as_completed` (ml_metrics/_src/chainables/orchestrate.py:470-550, after the
  `fix:` commits for F19 and F23): `tasks` retry stack, `running_tasks`, the submit loop over
  `next_idle_worker(maybe_acquire=True)`, the three-way result check, the "worker disconnected"
  branch, the mid-run release of unused workers, the final `release_all` (in a `finally`).
* `IT` — `courier_worker.WorkerPool.iterate` (courier_worker.py:426-605, after the `fix:` commits
  for F21 and F24) together with the per-task coroutine `courier_utils.CourierClient.async_iterate`
  (courier_utils.py:731-778: init call, next-batch loop, hand-over of the generator's return value
  on the end marker) and `sharded_pipelines_as_iterator`'s `compute_result` merger thread
  (orchestrate.py:109-143: `states_queue` -> `merge_states(strict_states_cnt=num_shards)` ->
  `result_queue`).

Granularity: one step = one examination of one running task by the main loop, one submission, one
`yield`, one coroutine step (= the pending call's answer is processed and the next call is issued),
one `states_queue.get()` of the merger, or one environment event (a worker is seen dead / alive
again).  Python examines all running tasks in one main-loop iteration; the model lets the
environment move between any two examinations, which is a superset of the real interleavings.
The asyncio event loop, thread scheduling and RPC timing themselves are NOT modelled: every
coroutine step and every main-loop step is assumed atomic at this granularity.

Workers are abstract: `alive` is the *master's view* (`Worker.is_alive`, i.e. the heartbeat
registry), `calls` counts the counted remote calls sent so far (the index into the fault plan),
`acquired` is `worker in pool.acquired_workers`.  `die`/`restart` at index `i` mean: the worker
dies somewhere between the sending of call `i-1` and the answer of call `i` (step `crash`, or at
the moment call `i` is sent); the call in flight never completes.  A `restart`ed worker may later
`rejoin`; the model requires that the master has dealt with the call that hung on it first (the
outage is long enough to be noticed, or announced by the dying server).
-/
namespace MlModel.Sched

/-- fate of one counted remote call (harness/fakecourier fates; `deadline_after` is `deadline`:
the client cannot tell whether the handler ran) -/
inductive Fate where
  | ok | deadline | die | restart | appError
  deriving DecidableEq, Repr, Hashable, Inhabited

/-- the call's future completes (with a value or an error) -/
def Fate.completes : Fate → Bool
  | .ok | .deadline | .appError => true
  | .die | .restart => false

/-- fault assignment: worker index → index of the counted call on that worker → fate -/
abbrev Env := Nat → Nat → Fate

structure Worker where
  alive : Bool := true
  canRejoin : Bool := false
  calls : Nat := 0
  acquired : Bool := false
  deriving DecidableEq, Repr, Hashable, Inhabited

/-- how the run ended, as seen by the caller -/
inductive Outcome where
  | returned        -- generator exhausted normally
  | raisedTimeout   -- TimeoutError (budget exhausted / all workers timed out)
  | raisedRuntime   -- RuntimeError from the failed task's exception (`iterate`)
  | raisedTask      -- the task's own exception re-raised (`as_completed`)
  | closed          -- the consumer closed the generator early
  deriving DecidableEq, Repr, Hashable, Inhabited

def Outcome.errKind : Outcome → Option ErrKind
  | .returned | .closed => none
  | .raisedTimeout => some .timeout
  | .raisedRuntime => some .runtime
  | .raisedTask => some .other

/-- The worker receives its next counted call: the fate that governs the call and the worker
afterwards.  A call sent to a worker that is already dead hangs whatever the plan says (the plan
index is consumed, as in the fake transport). -/
def Worker.issue (plan : Nat → Fate) (x : Worker) : Fate × Worker :=
  if !x.alive then (.die, { x with calls := x.calls + 1 })
  else match plan x.calls with
    | .die => (.die, { x with calls := x.calls + 1, alive := false })
    | .restart => (.restart, { x with calls := x.calls + 1, alive := false, canRejoin := true })
    | f => (f, { x with calls := x.calls + 1 })

def issue (env : Env) (ws : List Worker) (w : Nat) : Fate × List Worker :=
  match ws[w]? with
  | none => (.die, ws)
  | some x => ((x.issue (env w)).1, ws.set w (x.issue (env w)).2)

def aliveAt (ws : List Worker) (w : Nat) : Bool :=
  match ws[w]? with
  | some x => x.alive
  | none => false

def releaseAll (ws : List Worker) : List Worker := ws.map fun x => { x with acquired := false }

/-- spontaneous death between two calls; allowed when the plan holds `die`/`restart` for the
worker's next call index (which is thereby consumed) -/
def crashW (env : Env) (ws : List Worker) (w : Nat) : Option (List Worker) :=
  match ws[w]? with
  | none => none
  | some x =>
    if !x.alive then none
    else match env w x.calls with
      | .die => some (ws.set w { x with alive := false, calls := x.calls + 1 })
      | .restart =>
        some (ws.set w { x with alive := false, canRejoin := true, calls := x.calls + 1 })
      | _ => none

def rejoinW (ws : List Worker) (w : Nat) : Option (List Worker) :=
  match ws[w]? with
  | none => none
  | some x =>
    if !x.alive && x.canRejoin then some (ws.set w { x with alive := true, canRejoin := false })
    else none

/-! ## `as_completed` -/

/-- state of the future of a submitted task -/
inductive CallSt where
  | flying (f : Fate)
  | doneOk | doneTimeout | doneErr
  deriving DecidableEq, Repr, Hashable, Inhabited

structure RunA where
  task : Nat
  worker : Nat
  st : CallSt
  deriving DecidableEq, Repr, Hashable, Inhabited

structure ACfg where
  env : Env
  /-- the task's remote evaluation raises (a non-retriable task error) -/
  bad : Nat → Bool := fun _ => false
  ignoreFailures : Bool := false
  /-- `true` = the repaired code (F19): `release_all` in a `finally` -/
  releaseOnRaise : Bool := true

structure AC where
  ws : List Worker
  /-- tasks not yet drawn from `task_iterator` -/
  pending : List Nat
  /-- retry stack `tasks` (head = Python's last element, `append`/`pop()`) -/
  tasks : List Nat := []
  running : List RunA := []
  yielded : List Nat := []
  /-- tasks whose non-retriable error was raised (or dropped under `ignore_failures`) -/
  failed : List Nat := []
  exhausted : Bool := false
  outcome : Option Outcome := none
  deriving DecidableEq, Repr, Hashable, Inhabited

def AC.init (nWorkers nTasks : Nat) : AC :=
  { ws := List.replicate nWorkers {}, pending := List.range nTasks }

inductive ALabel where
  | acquire (w : Nat)     -- `next_idle_worker(maybe_acquire=True)` locks a worker
  | submit (w : Nat)      -- orchestrate.py:492-498
  | complete (i : Nat)    -- environment: the call of running task `i` completes
  | check (i : Nat)       -- orchestrate.py:502-531 for running task `i`
  | releaseMid (w : Nat)  -- orchestrate.py:534-545
  | crash (w : Nat)
  | rejoin (w : Nat)
  | exit                  -- loop condition false; `finally: release_all()`
  | noWorkers             -- orchestrate.py:483-484
  | close                 -- the consumer closes the generator
  deriving DecidableEq, Repr, Hashable, Inhabited

def AC.loopActive (s : AC) : Bool := !s.exhausted || !s.tasks.isEmpty || !s.running.isEmpty

/-- no call in flight on worker `w` (`has_capacity`, max_parallelism = 1) -/
def AC.hasCapacity (s : AC) (w : Nat) : Bool :=
  s.running.all fun r => r.worker != w || (match r.st with | .flying _ => false | _ => true)

/-- orchestrate.py:492-496: "Ensure failed tasks are retried before new tasks are submitted" - a new
task is drawn from the iterator only when the retry stack is empty -/
def AC.draw (s : AC) : AC :=
  if s.tasks.isEmpty && !s.exhausted then
    match s.pending with
    | [] => { s with exhausted := true }
    | t :: p => { s with tasks := [t], pending := p }
  else s

def AC.finish (c : ACfg) (s : AC) (o : Outcome) (always : Bool) : AC :=
  { s with outcome := some o, ws := if always || c.releaseOnRaise then releaseAll s.ws else s.ws }

def acStep (c : ACfg) (s : AC) : ALabel → Option AC
  | .acquire w =>
    match s.outcome, s.ws[w]? with
    | none, some x => some { s with ws := s.ws.set w { x with acquired := true } }
    | _, _ => none
  | .submit w =>
    match s.outcome, s.ws[w]? with
    | none, some x =>
      if x.acquired && x.alive && s.hasCapacity w && (!s.tasks.isEmpty || !s.exhausted) then
        match s.draw.tasks with
        | [] => some s.draw
        | t :: rest =>
          some { s.draw with tasks := rest, ws := (issue c.env s.ws w).2,
                             running := s.running ++ [{ task := t, worker := w, st := .flying (issue c.env s.ws w).1 }] }
      else none
    | _, _ => none
  | .complete i =>
    match s.outcome, s.running[i]? with
    | none, some r =>
      match r.st with
      | .flying .ok =>
        let st' : CallSt := if c.bad r.task then .doneErr else .doneOk
        some { s with running := s.running.set i { r with st := st' } }
      | .flying .deadline => some { s with running := s.running.set i { r with st := .doneTimeout } }
      | .flying .appError => some { s with running := s.running.set i { r with st := .doneErr } }
      | _ => none
    | _, _ => none
  | .check i =>
    match s.outcome, s.running[i]? with
    | none, some r =>
      let rest := s.running.eraseIdx i
      match r.st with
      | .doneTimeout => some { s with running := rest, tasks := r.task :: s.tasks }
      | .doneErr =>
        if c.ignoreFailures then some { s with running := rest, failed := r.task :: s.failed }
        else some (AC.finish c { s with running := rest, failed := r.task :: s.failed } .raisedTask false)
      | .doneOk => some { s with running := rest, yielded := s.yielded ++ [r.task] }
      | .flying _ =>
        -- "Worker disconnected": the future is failed by hand and the task retried
        if aliveAt s.ws r.worker then none
        else some { s with running := rest, tasks := r.task :: s.tasks }
    | _, _ => none
  | .releaseMid w =>
    match s.outcome, s.ws[w]? with
    | none, some x =>
      if s.exhausted && s.tasks.isEmpty then
        some { s with ws := s.ws.set w { x with acquired := false } }
      else none
    | _, _ => none
  | .crash w =>
    match s.outcome, crashW c.env s.ws w with
    | none, some ws' => some { s with ws := ws' }
    | _, _ => none
  | .rejoin w =>
    match s.outcome, rejoinW s.ws w with
    | none, some ws' => if s.hasCapacity w then some { s with ws := ws' } else none
    | _, _ => none
  | .exit =>
    if s.outcome.isNone && !s.loopActive then some (AC.finish c s .returned true) else none
  | .noWorkers =>
    if s.outcome.isNone && s.loopActive && s.ws.all (fun x => !x.alive) then
      some (AC.finish c s .raisedTimeout false)
    else none
  | .close =>
    if s.outcome.isNone then some (AC.finish c s .closed false) else none

inductive AReach (c : ACfg) (s0 : AC) : AC → Prop where
  | refl : AReach c s0 s0
  | step {s s' : AC} (l : ALabel) : AReach c s0 s → acStep c s l = some s' → AReach c s0 s'

/-! ## `WorkerPool.iterate` + `async_iterate` coroutine + `compute_result` merger -/

/-- program point of the per-task coroutine `_iterate_until_complete(async_iterate(task))` -/
inductive CoSt where
  | start                              -- scheduled with `run_coroutine_threadsafe`, not yet run
  | awaitInit (f : Fate)               -- `init_generator` in flight
  | awaitNext (f : Fate) (pos : Nat)   -- `next_batch_from_generator` in flight, `pos` batches received
  | putDone                            -- end marker seen, return value handed over; not yet completed
  | finished                           -- `task.done()` and no exception
  | raisedTimeout                      -- completed with a deadline error
  | raisedErr                          -- completed with any other exception
  deriving DecidableEq, Repr, Hashable, Inhabited

def CoSt.done : CoSt → Bool
  | .finished | .raisedTimeout | .raisedErr => true
  | _ => false

structure RunI where
  shard : Nat
  worker : Nat
  co : CoSt := .start
  /-- the attempt's private result queue holds the generator's return value (repaired code) -/
  hasState : Bool := false
  deriving DecidableEq, Repr, Hashable, Inhabited

structure ICfg where
  env : Env
  /-- number of shards (`total_tasks`, `num_shards`) -/
  n : Nat
  /-- number of output batches of each shard -/
  nb : Nat → Nat
  /-- `retry_threshold` -/
  threshold : Nat
  /-- `true` = code before the F21 repair: the coroutine puts the state on `states_queue` itself -/
  directPut : Bool := false
  /-- `true` = repaired code (F20): `merge_states(..., strict_states_cnt=num_shards)` -/
  strict : Bool := true

structure IT where
  ws : List Worker
  pending : List Nat
  tasks : List Nat := []
  running : List RunI := []
  /-- attempts abandoned by the main loop (cancelled); they may still run a little -/
  zombies : List RunI := []
  /-- `output_queue`: (shard, batch index) -/
  outQ : List (Nat × Nat) := []
  /-- batches yielded to the caller -/
  yieldedB : List (Nat × Nat) := []
  /-- `states_queue`: `some shard` = that shard's AggregateResult, `none` = the stop marker -/
  statesQ : List (Option Nat) := []
  /-- states consumed by `compute_result` so far -/
  merged : List Nat := []
  /-- `none` = merger running; `some none` = merge raised ValueError; `some (some l)` = one
  AggregateResult (merge of the states of shards `l`) put on `result_queue` -/
  result : Option (Option (List Nat)) := none
  finished : List Nat := []
  failed : List Nat := []
  timeoutCnt : Nat := 0
  exhausted : Bool := false
  outcome : Option Outcome := none
  deriving DecidableEq, Repr, Hashable, Inhabited

def IT.init (nWorkers nShards : Nat) : IT :=
  { ws := List.replicate nWorkers {}, pending := List.range nShards }

inductive ILabel where
  | submit (w : Nat)                       -- courier_worker.py:459-484
  | co (i k : Nat) (marker : Bool)         -- coroutine of running task `i`: the answer carries `k` batches (+ end marker)
  | zco (i k : Nat) (marker : Bool)        -- the same for an abandoned attempt
  | drain                                  -- courier_worker.py:485-487 (one `yield`)
  | check (i : Nat)                        -- courier_worker.py:491-536 for running task `i`
  | finish                                 -- loop exit / break + the `finally` block
  | merge                                  -- compute_result: one state taken from `states_queue`
  | mergeStop                              -- compute_result: stop marker -> merge_states -> result_queue
  | crash (w : Nat)
  | rejoin (w : Nat)
  deriving DecidableEq, Repr, Hashable, Inhabited

/-- result of one coroutine step -/
structure CoOut where
  ws : List Worker
  r : RunI
  batches : List (Nat × Nat) := []
  put : Option Nat := none

/-- One step of the coroutine (courier_utils.py:731-778). -/
def coStep (c : ICfg) (ws : List Worker) (r : RunI) (k : Nat) (marker : Bool) : Option CoOut :=
  match r.co with
  | .start =>
    let fw := issue c.env ws r.worker
    some { ws := fw.2, r := { r with co := .awaitInit fw.1 } }
  | .awaitInit .ok =>
    let fw := issue c.env ws r.worker
    some { ws := fw.2, r := { r with co := .awaitNext fw.1 0 } }
  | .awaitInit .deadline => some { ws := ws, r := { r with co := .raisedTimeout } }
  | .awaitInit .appError => some { ws := ws, r := { r with co := .raisedErr } }
  | .awaitInit _ => none
  | .awaitNext .ok pos =>
    -- a blocking `get_batch` answers with >= 1 batch unless the generator is exhausted; the end
    -- marker comes with the last batches or alone (timing of the prefetch thread)
    if pos + k ≤ c.nb r.shard && (!marker || pos + k == c.nb r.shard) && (k != 0 || marker) then
      let bs := (List.range' pos k).map fun b => (r.shard, b)
      if marker then
        some { ws := ws, batches := bs,
               r := { r with co := .putDone, hasState := !c.directPut },
               put := if c.directPut then some r.shard else none }
      else
        let fw := issue c.env ws r.worker
        some { ws := fw.2, batches := bs, r := { r with co := .awaitNext fw.1 (pos + k) } }
    else none
  | .awaitNext .deadline _ => some { ws := ws, r := { r with co := .raisedTimeout } }
  | .awaitNext .appError _ => some { ws := ws, r := { r with co := .raisedErr } }
  | .awaitNext _ _ => none
  | .putDone => some { ws := ws, r := { r with co := .finished } }
  | .finished | .raisedTimeout | .raisedErr => none

def IT.loopOver (s : IT) : Bool := s.exhausted && s.tasks.isEmpty && s.running.isEmpty

def IT.broken (c : ICfg) (s : IT) : Bool := !s.failed.isEmpty || c.threshold < s.timeoutCnt

def IT.freeWorker (s : IT) (w : Nat) : Bool := s.running.all fun r => r.worker != w

/-- courier_worker.py:462-467 -/
def IT.draw (s : IT) : IT :=
  if s.tasks.isEmpty && !s.exhausted then
    match s.pending with
    | [] => { s with exhausted := true }
    | t :: p => { s with tasks := [t], pending := p }
  else s

def putStates (q : List (Option Nat)) : Option Nat → List (Option Nat)
  | none => q
  | some sh => q ++ [some sh]

def itStep (c : ICfg) (s : IT) : ILabel → Option IT
  | .submit w =>
    match s.outcome with
    | none =>
      if aliveAt s.ws w && s.freeWorker w && !s.broken c && (!s.tasks.isEmpty || !s.exhausted) then
        match s.draw.tasks with
        | [] => some s.draw
        | t :: rest => some { s.draw with tasks := rest, running := s.running ++ [{ shard := t, worker := w }] }
      else none
    | some _ => none
  | .co i k marker =>
    match s.running[i]? with
    | none => none
    | some r =>
      match coStep c s.ws r k marker with
      | none => none
      | some o => some { s with ws := o.ws, running := s.running.set i o.r,
                                outQ := s.outQ ++ o.batches, statesQ := putStates s.statesQ o.put }
  | .zco i k marker =>
    match s.zombies[i]? with
    | none => none
    | some r =>
      match coStep c s.ws r k marker with
      | none => none
      | some o => some { s with ws := o.ws, zombies := s.zombies.set i o.r,
                                outQ := s.outQ ++ o.batches, statesQ := putStates s.statesQ o.put }
  | .drain =>
    match s.outcome, s.outQ with
    | none, b :: q => some { s with outQ := q, yieldedB := s.yieldedB ++ [b] }
    | _, _ => none
  | .check i =>
    match s.outcome, s.running[i]? with
    | none, some r =>
      let rest := s.running.eraseIdx i
      match r.co with
      | .finished =>
        some { s with running := rest, finished := s.finished ++ [r.shard],
                      statesQ := if r.hasState then s.statesQ ++ [some r.shard] else s.statesQ }
      | .raisedTimeout =>
        some { s with running := rest, tasks := r.shard :: s.tasks, timeoutCnt := s.timeoutCnt + 1 }
      | .raisedErr => some { s with running := rest, failed := r.shard :: s.failed }
      | _ =>
        if aliveAt s.ws r.worker then none
        else
          -- "worker timeout": cancel the attempt and retry the task
          some { s with running := rest, zombies := r :: s.zombies, tasks := r.shard :: s.tasks,
                        timeoutCnt := s.timeoutCnt + 1 }
    | _, _ => none
  | .finish =>
    match s.outcome with
    | none =>
      if s.broken c || s.loopOver then
        some { s with
          yieldedB := s.yieldedB ++ s.outQ, outQ := [],
          statesQ := s.statesQ ++ [none],
          outcome := some (if !s.failed.isEmpty then .raisedRuntime
                           else if c.threshold < s.timeoutCnt then .raisedTimeout else .returned) }
      else none
    | some _ => none
  | .merge =>
    match s.result, s.statesQ with
    | none, some sh :: q => some { s with statesQ := q, merged := s.merged ++ [sh] }
    | _, _ => none
  | .mergeStop =>
    match s.result, s.statesQ with
    | none, none :: q =>
      some { s with statesQ := q,
                    result := some (if c.strict && s.merged.length != c.n then none else some s.merged) }
    | _, _ => none
  | .crash w =>
    match crashW c.env s.ws w with
    | some ws' => some { s with ws := ws' }
    | none => none
  | .rejoin w =>
    match rejoinW s.ws w with
    | some ws' => if s.freeWorker w then some { s with ws := ws' } else none
    | none => none

inductive IReach (c : ICfg) (s0 : IT) : IT → Prop where
  | refl : IReach c s0 s0
  | step {s s' : IT} (l : ILabel) : IReach c s0 s → itStep c s l = some s' → IReach c s0 s'

/-! ## `merge_states(states, strict_states_cnt=n)` (transform.py:343-374 and 588-604) -/

/-- loop body of `TransformRunner.merge_states`: merge into the running state, count -/
def trFoldStep {S : Type} (merge : S → S → S) (a : Option S × Nat) (st : S) : Option S × Nat :=
  (some (match a.1 with | none => st | some m => merge m st), a.2 + 1)

/-- `TransformRunner.merge_states`: folds while counting, checks the count afterwards. -/
def trMergeStates {S : Type} (merge : S → S → S) (empty : S) (states : List S) (strict : Nat) :
    Except ErrKind S :=
  if strict != 0 && (states.foldl (trFoldStep merge) (none, 0)).2 != strict then .error .value
  else .ok ((states.foldl (trFoldStep merge) (none, 0)).1.getD empty)

/-- `ChainedRunner.merge_states`: materialises the states, checks the count first, then lets each
aggregating runner merge. -/
def chMergeStates {S : Type} (merge : S → S → S) (empty : S) (states : List S) (strict : Nat) :
    Except ErrKind S :=
  if strict != 0 && states.length != strict then .error .value
  else .ok (match states with | [] => empty | st :: rest => rest.foldl merge st)

/-- `_async_run_single_stage`, orchestrate.py:367-391: after all stage workers are done the
per-worker AggregateResults in `result_q.returned` (`agg_state` may be `None`) are replaced by one. -/
def stageReturned {S : Type} (mergeStates : List S → S) (returned : List (Option S)) : List S :=
  if returned.isEmpty then [] else [mergeStates (returned.filterMap id)]

end MlModel.Sched
