import MlModel.Model.Sched
/-!
# `ChainedRunner.merge_states` over a ONE-SHOT stream of states, several aggregating stages (C16)

`sharded_pipelines_as_iterator.compute_result` (orchestrate.py:109-143) hands `merge_states` a generator
that reads the shard states from `states_queue` - an iterable that can be traversed ONCE.  A chain may
contain several aggregating stages (`ChainedRunner.named_aggs`, transform.py:576-578); a shard state is a
dict holding one component per aggregating stage.

`ChainedRunner.merge_states` (transform.py:603-619): `states = list(states)` (the one traversal), the
strict count check on that list, then EVERY aggregating runner folds over the list
(`TransformRunner.merge_states(states)`, transform.py:343-374, which only merges the components whose key
belongs to the runner).

A one-shot iterable is modelled by what it still has to deliver: traversing it returns the remaining
elements and leaves nothing (`OneShot.drain`).
-/
namespace MlModel.Sched

/-- a one-shot iterable: the elements it has not delivered yet -/
structure OneShot (S : Type) where
  rest : List S

/-- traverse to the end: everything that was left, and the exhausted iterable -/
def OneShot.drain {S : Type} (o : OneShot S) : List S × OneShot S := (o.rest, ⟨[]⟩)

/-- `TransformRunner.merge_states(states, strict)` for the runner of stage `j` (component `proj j` of every
state dict) reading from a one-shot iterable: the fold of `trMergeStates`, and the iterable afterwards -/
def trMergeOneShot {S C : Type} (merge : C → C → C) (empty : C) (proj : S → C) (o : OneShot S) (strict : Nat) :
    Except ErrKind C × OneShot S :=
  (trMergeStates merge empty (o.drain.1.map proj) strict, o.drain.2)

/-- `ChainedRunner.merge_states(states, strict)` (the code): materialise once, check the count, then each of
the `k` aggregating stages merges its component of ALL states.  Result: one merged component per stage. -/
def chMergeMulti {S C : Type} (merge : C → C → C) (empty : C) (proj : Nat → S → C) (k : Nat)
    (o : OneShot S) (strict : Nat) : Except ErrKind (List C) :=
  let states := o.drain.1
  if strict != 0 && states.length != strict then .error .value
  else (List.range k).mapM fun j => trMergeStates merge empty (states.map (proj j)) 0

/-- the single-pass variant (class of the seeded change C16-m2): no materialisation, the one-shot iterable is
handed to the stage runners one after the other, each with the strict count -/
def chMergeSinglePass {S C : Type} (merge : C → C → C) (empty : C) (proj : Nat → S → C) :
    Nat → OneShot S → Nat → Except ErrKind (List C)
  | 0, _, _ => .ok []
  | k + 1, o, strict =>
    -- stages are visited in order 0, 1, ..: stage `j` of `k+1` remaining is handled by shifting `proj`
    match trMergeOneShot merge empty (proj 0) o strict with
    | (.error e, _) => .error e
    | (.ok c, o') =>
      match chMergeSinglePass merge empty (fun j => proj (j + 1)) k o' strict with
      | .error e => .error e
      | .ok cs => .ok (c :: cs)

end MlModel.Sched
