import MlModel.Model.Queue
/-!
# Labelled transition system of `PrefetchedCourierServer` and of the client loop
(ml_metrics/_src/chainables/courier_server.py, class `PrefetchedCourierServer`;
ml_metrics/_src/utils/courier_utils.py, `CourierClient.async_iterate`) — the code **with the repairs**
of findings F7 (`get_batch(..., keep_partial=True)`), F25 (`_next_batch` reads `self._generator` once)
and F26 (`_init_iterator` stops the previous generator and installs the new one in one critical
section; `_stop_prefetch` takes the lock before it looks at the generator).

Built on top of the queue LTS `Model/Queue.lean`: every `IteratorQueue` the server creates is one
`Queue.Shared` in the list `qs` (creation order); the queue part of a server thread (the prefetch
thread's `enqueue_from_iterator`, a request's blocking `get_batch`, `maybe_stop` of a locked stop) is an
embedded `Queue.Thread` stepped by `Queue.stepThread` on the queue the thread works on — not re-modelled.

One atomic step = one synchronisation operation (the yield points of `harness/sched/shim.py`); the
thread-local code that follows it, including reads/writes of the plain attributes `_generator`,
`_enqueue_thread`, `_shutdown_requested`, is fused into the step.  RPCs are synchronous: the handler
of a request runs on the requesting thread (the fake courier's 'inline' mode), so a client whose
requests are sequential is one thread.

Labels: server-level objects `shut` (`_shutdown_lock`), `states` (`_states_lock`), `tx`
(`_tx_stats_lock`), `gen` (`_generator_lock`); an operation on the k-th queue is the queue model's
label followed by `#k` (`acquire cond1#0`, `get_nowait q1#1`, …).

Threads run one of these programs:
* `main`             — the server's own thread, `run_until_shutdown` + `_shutdown_server`
                       (its 60 s heartbeat time-out is not modelled: it only re-runs the logging);
* `client g batch`   — `async_iterate`: `init_generator(g)`, then `next_batch_from_generator(batch)` until
                       an end marker or an exception arrives, yielding the elements;
* `initIter g`       — one `init_generator` request;    `nextBatch n` — one `next_batch_from_generator`;
* `initFail e cl`    — one `init_generator` request whose lazy object cannot be turned into a generator:
                       `lazy_fns.maybe_make` raises (`e = value`: the constructor's exception) or builds a value
                       that is not an `Iterable` (`e = type`; courier_server.py:415-417).  The handler raises
                       under the generator lock AFTER the previous generator has been stopped and BEFORE anything
                       is installed; `cl = true`: the request is the `init_generator` of a client loop
                       (`async_iterate` re-raises the failed call and never asks for a batch);
* `stopPrefetch f`   — one `stop_prefetch` request;      `shutdown`    — one `shutdown` request;
* `producer k`       — the prefetch thread of the k-th queue (spawned by `_init_iterator`).
-/
namespace MlModel.Prefetch
open MlModel.Queue (Tid Elem Item Raise)

structure Gen where
  src : List Item
  ret : Nat
  deriving DecidableEq, Repr, Inhabited

inductive Prog where
  | main
  | client (g : Gen) (batch : Nat)
  | initIter (g : Gen)
  | initFail (e : ErrKind) (asClient : Bool)
  | nextBatch (batch : Nat)
  | stopPrefetch (fatal : Bool)
  | shutdown
  | producer (k : Nat)
  deriving DecidableEq, Repr, Inhabited

inductive Pc where
  | start | done
  -- run_until_shutdown (courier_server.py:270-297) / _shutdown_server (259-268)
  | mnAcq | mnWait | mnWake | mnTxA | mnTxR | mnRel | mnStA | mnStR
  -- `with self._generator_lock: self._stop_prefetch_locked(..)` (376-397), shared by all callers
  | lkAcq | lkStop | lkJoin | lkRel
  -- _init_iterator (399-436): start the prefetch thread, notify the shutdown condition
  | iiSpawn | iiN0 | iiN1 | iiN2
  -- _next_batch (438-478): inside `get_batch`, then `_return_pickled`
  | nbGet | nbTxA | nbTxR
  -- _request_shutdown (139-157)
  | sdAcq | sdNotify | sdRel
  -- the prefetch thread: inside `enqueue_from_iterator`
  | prod
  deriving DecidableEq, Repr, Inhabited

/-- one `next_batch_from_generator` reply: the elements and the optional end marker -/
structure Reply where
  /-- the queue the request worked on (`none`: no generator was set) -/
  g : Option Nat
  elems : List Elem
  marker : Option Raise
  deriving DecidableEq, Repr, Inhabited

def idleQt : Queue.Thread := { prog := .getLoop, pc := .done }

structure Thread where
  prog : Prog
  pc : Pc := .start
  /-- the embedded queue-level thread (meaningful at `lkStop`, `nbGet`, `prod`) -/
  qt : Queue.Thread := idleQt
  /-- the queue this thread works on (the value of `self._generator` it read) -/
  g : Nat := 0
  /-- `_next_batch`'s result between the marker logic and the return -/
  reply : Option Reply := none
  /-- `_init_iterator`: the exception object to return after the lock is released -/
  ret : Option ErrKind := none
  /-- client: what the loop has yielded so far -/
  yielded : List Elem := []
  /-- ghost: every reply this thread received -/
  replies : List Reply := []
  /-- ghost: elements a shutting-down worker dropped from a reply -/
  discarded : List Elem := []
  /-- how the thread ended: `client` — the end marker / exception that ended the loop; `initIter` — the
  exception object returned (`none` = `None`); `producer` — what `enqueue_from_iterator` raised -/
  outcome : Option Raise := none
  deriving Repr, Inhabited

structure Shared where
  /-- every `IteratorQueue` created so far, in creation order -/
  qs : List Queue.Shared := []
  /-- `prefetch_size` -/
  prefetch : Nat := 2
  /-- `self._generator` (index into `qs`) -/
  generator : Option Nat := none
  /-- `self._enqueue_thread` (the started thread) -/
  enqThread : Option Tid := none
  genOwner : Option Tid := none
  shutOwner : Option Tid := none
  txOwner : Option Tid := none
  stOwner : Option Tid := none
  shutWait : List Tid := []
  shutNotified : List Tid := []
  shutdownRequested : Bool := false
  /-- is the courier server reachable (false after `_server.Stop()`) -/
  serverUp : Bool := true
  deriving Repr, Inhabited

structure Cfg where
  sh : Shared
  ths : List Thread
  deriving Repr, Inhabited

/-- `batch_size or self._max_batch_size` (iter_utils.py:41, 650) -/
def effBatch (n : Nat) : Nat := if n = 0 then 4096 else n

/-- a fresh `IteratorQueue(prefetch_size)`; its only consumer `_next_batch` passes `keep_partial=True` -/
def freshQueue (prefetch : Nat) : Queue.Shared := { cap := prefetch, keepPartial := true }

/-- label of a queue-level operation on the k-th queue -/
def relabel (k : Nat) (lbl : String) : String :=
  if lbl.contains ' ' then lbl ++ "#" ++ toString k else lbl

def Shared.exhaustedOf (s : Shared) (k : Nat) : Bool :=
  match s.qs[k]? with | some q => q.exhausted | none => true

/-- the end of a `next_batch_from_generator` request as seen by the requester: `nextBatch` records the
reply and ends; `client` yields the elements and ends on a marker, else issues the next request. -/
def gen? : Prog → Option Gen
  | .client g _ => some g | .initIter g => some g | _ => none

/-- start of `_next_batch` (fused into the preceding step): read `self._generator` once -/
def beginNext (s : Shared) (t : Thread) (n : Nat) : Thread :=
  match s.generator with
  | none =>
    -- courier_server.py:443-452: `[TimeoutError(..)]`, no synchronisation operation at all
    let r : Reply := { g := none, elems := [], marker := some (.err .timeout) }
    match t.prog with
    | .client _ _ => { t with pc := .done, replies := t.replies ++ [r], outcome := some (.err .timeout) }
    | _ => { t with pc := .done, replies := t.replies ++ [r] }
  | some g =>
    { t with pc := .nbGet, g := g, qt := { prog := .batchLoop (effBatch n) true, pc := .bAcq } }

/-- a request is issued: the call fails at once when the server has been stopped -/
def callNext (s : Shared) (t : Thread) (n : Nat) : Thread :=
  if !s.serverUp then { t with pc := .done, outcome := some (.err .other) } else beginNext s t n

/-- the requester receives reply `r` (courier_utils.py:750-771) -/
def receive (s : Shared) (t : Thread) (r : Reply) : Thread :=
  let t := { t with reply := none, replies := t.replies ++ [r] }
  match t.prog with
  | .client _ n =>
    let t := { t with yielded := t.yielded ++ r.elems }
    match r.marker with
    | some m => { t with pc := .done, outcome := some m }
    | none => callNext s t n
  | _ => { t with pc := .done }

/-- marker logic of `_next_batch` (courier_server.py:465-477), fused into the last step of `get_batch`;
`q` is the state of the request's own queue after that step -/
def mkReply (s : Shared) (g : Nat) (q : Queue.Shared) (elems : List Elem) : Reply × List Elem :=
  if q.exhausted then
    match q.exc with
    | some e =>
      if s.shutdownRequested then ({ g := some g, elems := [], marker := some (.err .timeout) }, elems)
      else ({ g := some g, elems := elems, marker := some (.err e) }, [])
    | none => ({ g := some g, elems := elems, marker := some (.stop q.returned) }, [])
  else ({ g := some g, elems := elems, marker := none }, [])

/-- `_stop_prefetch_locked` right after the lock is taken: stop the current generator, or nothing to do -/
def beginStop (s : Shared) (t : Thread) (e : ErrKind) (skip : Pc) : Thread :=
  match s.generator with
  | some g =>
    if s.exhaustedOf g then { t with pc := skip }
    else { t with pc := .lkStop, g := g, qt := { prog := .stopper (some e), pc := .mAcq } }
  | none => { t with pc := skip }

/-- `_init_iterator` after the previous generator is stopped: a new queue becomes `self._generator` -/
def install (s : Shared) (t : Thread) : Shared × Thread :=
  let k := s.qs.length
  ({ s with qs := s.qs ++ [freshQueue s.prefetch], generator := some k }, { t with pc := .iiSpawn, g := k })

/-- `_init_iterator` after the previous generator is stopped when `lazy_fns.maybe_make(maybe_lazy)` raises or
its value is not an `Iterable` (courier_server.py:415-417): NOTHING is installed — `self._generator` and
`self._enqueue_thread` keep pointing to the stopped generator (or `None`) —, the `with` block releases the
generator lock and the exception leaves the handler -/
def failInit (t : Thread) (e : ErrKind) : Thread := { t with pc := .lkRel, ret := some e }

/-- where a locked stop continues when there is nothing (more) to stop -/
def afterStop (s : Shared) (t : Thread) : Shared × Thread :=
  match t.prog with
  | .client _ _ | .initIter _ => install s t
  | .initFail e _ => (s, failInit t e)
  | _ => (s, { t with pc := .lkRel })

def setTh (c : Cfg) (tid : Tid) (s : Shared) (t : Thread) : Cfg := { sh := s, ths := c.ths.set tid t }

/-- One step of thread `tid`; `none` when its pending operation is not enabled. -/
def step (c : Cfg) (tid : Tid) : Option (String × Cfg) :=
  match c.ths[tid]? with
  | none => none
  | some t =>
  let s := c.sh
  match t.pc with
  | .done => none
  | .start =>
    match t.prog with
    | .main => some ("start", setTh c tid s { t with pc := .mnAcq })
    | .producer k => some ("start", setTh c tid s { t with pc := .prod, g := k })
    | .shutdown =>
      if !s.serverUp then some ("start", setTh c tid s { t with pc := .done, outcome := some (.err .other) })
      else some ("start", setTh c tid s { t with pc := .sdAcq })
    | .stopPrefetch _ =>
      if !s.serverUp then some ("start", setTh c tid s { t with pc := .done, outcome := some (.err .other) })
      else some ("start", setTh c tid s { t with pc := .lkAcq })
    | .nextBatch n => some ("start", setTh c tid s (callNext s t n))
    | .client _ _ | .initIter _ | .initFail _ _ =>
      if !s.serverUp then some ("start", setTh c tid s { t with pc := .done, outcome := some (.err .other) })
      -- courier_server.py:402-403
      else if s.shutdownRequested then
        some ("start", setTh c tid s { t with pc := .done, outcome := some (.err .timeout) })
      else some ("start", setTh c tid s { t with pc := .lkAcq })
  -- ---------------------------------------------------------------- run_until_shutdown
  | .mnAcq =>
    if s.shutOwner.isSome then none else
    some ("acquire shut", setTh c tid { s with shutOwner := some tid }
      { t with pc := if s.shutdownRequested then .mnRel else .mnWait })
  | .mnWait =>
    if s.shutOwner != some tid then none else
    some ("wait shut", setTh c tid { s with shutOwner := none, shutWait := s.shutWait ++ [tid] } { t with pc := .mnWake })
  | .mnWake =>
    if s.shutOwner.isSome || !s.shutNotified.contains tid then none else
    some ("wake shut", setTh c tid { s with shutOwner := some tid, shutNotified := s.shutNotified.erase tid }
      { t with pc := .mnTxA })
  | .mnTxA =>
    if s.txOwner.isSome then none else
    some ("acquire tx", setTh c tid { s with txOwner := some tid } { t with pc := .mnTxR })
  | .mnTxR =>
    if s.txOwner != some tid then none else
    some ("release tx", setTh c tid { s with txOwner := none }
      { t with pc := if s.shutdownRequested then .mnRel else .mnWait })
  | .mnRel =>
    if s.shutOwner != some tid then none else
    some ("release shut", setTh c tid { s with shutOwner := none } { t with pc := .mnStA })
  | .mnStA =>
    if s.stOwner.isSome then none else
    some ("acquire states", setTh c tid { s with stOwner := some tid } { t with pc := .lkAcq })
  | .mnStR =>
    if s.stOwner != some tid then none else
    some ("release states", setTh c tid { s with stOwner := none } { t with pc := .done })
  -- ---------------------------------------------------------------- locked stop
  | .lkAcq =>
    if s.genOwner.isSome then none else
    let s1 := { s with genOwner := some tid }
    match t.prog with
    | .client _ _ | .initIter _ =>
      -- the shutdown flag is checked again under the lock
      if s.shutdownRequested then some ("acquire gen", setTh c tid s1 { t with pc := .lkRel, ret := some .timeout })
      else
        let t1 := beginStop s1 t .timeout .iiSpawn
        if t1.pc == .iiSpawn then
          let (s2, t2) := install s1 t
          some ("acquire gen", setTh c tid s2 t2)
        else some ("acquire gen", setTh c tid s1 t1)
    | .initFail e _ =>
      -- same handler; the construction fails once the previous generator is stopped
      if s.shutdownRequested then some ("acquire gen", setTh c tid s1 { t with pc := .lkRel, ret := some .timeout })
      else
        let t1 := beginStop s1 t .timeout .lkRel
        if t1.pc == .lkRel then some ("acquire gen", setTh c tid s1 (failInit t e))
        else some ("acquire gen", setTh c tid s1 t1)
    | .stopPrefetch fatal =>
      some ("acquire gen", setTh c tid s1 (beginStop s1 t (if fatal then .runtime else .timeout) .lkRel))
    | _ => some ("acquire gen", setTh c tid s1 (beginStop s1 t .timeout .lkRel))
  | .lkStop =>
    match s.qs[t.g]? with
    | none => none
    | some q =>
      match Queue.stepThread q t.qt tid false with
      | none => none
      | some (lbl, q', qt') =>
        let s1 := { s with qs := s.qs.set t.g q' }
        let t1 := { t with qt := qt' }
        if qt'.pc == .done then
          match qt'.outcome with
          | some _ =>
            -- `assert self.enqueue_done` failed: the `with` releases the lock and the error propagates
            some (relabel t.g lbl, setTh c tid s1 { t1 with pc := .lkRel, ret := some .assertion })
          | none =>
            if s.enqThread.isSome then some (relabel t.g lbl, setTh c tid s1 { t1 with pc := .lkJoin })
            else
              let (s2, t2) := afterStop s1 t1
              some (relabel t.g lbl, setTh c tid s2 t2)
        else some (relabel t.g lbl, setTh c tid s1 t1)
  | .lkJoin =>
    match s.enqThread with
    | none => none
    | some p =>
      match c.ths[p]? with
      | none => none
      | some tp =>
        if tp.pc != .done then none else
        let (s2, t2) := afterStop s t
        some ("join thread", setTh c tid s2 t2)
  | .lkRel =>
    if s.genOwner != some tid then none else
    let s1 := { s with genOwner := none }
    match t.prog with
    | .main =>
      -- `self._server.Stop()` follows the callback
      some ("release gen", setTh c tid { s1 with serverUp := false } { t with pc := .mnStR })
    | .client _ _ | .initIter _ =>
      match t.ret with
      | some e => some ("release gen", setTh c tid s1 { t with pc := .done, outcome := some (.err e) })
      | none => some ("release gen", setTh c tid s1 { t with pc := .iiN0 })
    | _ =>
      some ("release gen", setTh c tid s1 { t with pc := .done, outcome := t.ret.map Raise.err })
  -- ---------------------------------------------------------------- _init_iterator
  | .iiSpawn =>
    match gen? t.prog with
    | none => none
    | some g =>
      -- the thread's first scheduling is the `start` step below; its queue part begins at `_start_enqueue`
      let p : Thread := { prog := .producer t.g, qt := { prog := .producer g.src g.ret, pc := .sAcq, src := g.src } }
      some ("thread_start thread",
        { sh := { s with enqThread := some c.ths.length }, ths := (c.ths.set tid { t with pc := .lkRel }) ++ [p] })
  | .iiN0 =>
    if s.shutOwner.isSome then none else
    some ("acquire shut", setTh c tid { s with shutOwner := some tid } { t with pc := .iiN1 })
  | .iiN1 =>
    if s.shutOwner != some tid then none else
    some ("notify_all shut", setTh c tid { s with shutNotified := s.shutNotified ++ s.shutWait, shutWait := [] }
      { t with pc := .iiN2 })
  | .iiN2 =>
    if s.shutOwner != some tid then none else
    let s1 := { s with shutOwner := none }
    match t.prog with
    | .client _ n => some ("release shut", setTh c tid s1 (callNext s1 t n))
    | _ => some ("release shut", setTh c tid s1 { t with pc := .done })
  -- ---------------------------------------------------------------- _next_batch
  | .nbGet =>
    match s.qs[t.g]? with
    | none => none
    | some q =>
      match Queue.stepThread q t.qt tid false with
      | none => none
      | some (lbl, q', qt') =>
        let s1 := { s with qs := s.qs.set t.g q' }
        if qt'.pc == .bAcq || qt'.pc == .done then
          -- `get_batch` returned (`bE3`) or raised (`bRaise`; swallowed): marker logic on the same queue
          let (r, dropped) := mkReply s1 t.g q' qt'.received
          some (relabel t.g lbl, setTh c tid s1
            { t with qt := idleQt, reply := some r, discarded := t.discarded ++ dropped, pc := .nbTxA })
        else some (relabel t.g lbl, setTh c tid s1 { t with qt := qt' })
  | .nbTxA =>
    if s.txOwner.isSome then none else
    some ("acquire tx", setTh c tid { s with txOwner := some tid } { t with pc := .nbTxR })
  | .nbTxR =>
    if s.txOwner != some tid then none else
    match t.reply with
    | none => none
    | some r =>
      let s1 := { s with txOwner := none }
      some ("release tx", setTh c tid s1 (receive s1 t r))
  -- ---------------------------------------------------------------- _request_shutdown
  | .sdAcq =>
    if s.shutOwner.isSome then none else
    some ("acquire shut", setTh c tid { s with shutOwner := some tid, shutdownRequested := true } { t with pc := .sdNotify })
  | .sdNotify =>
    if s.shutOwner != some tid then none else
    some ("notify_all shut", setTh c tid { s with shutNotified := s.shutNotified ++ s.shutWait, shutWait := [] }
      { t with pc := .sdRel })
  | .sdRel =>
    if s.shutOwner != some tid then none else
    some ("release shut", setTh c tid { s with shutOwner := none } { t with pc := .done })
  -- ---------------------------------------------------------------- the prefetch thread
  | .prod =>
    match s.qs[t.g]? with
    | none => none
    | some q =>
      match Queue.stepThread q t.qt tid false with
      | none => none
      | some (lbl, q', qt') =>
        let s1 := { s with qs := s.qs.set t.g q' }
        if qt'.pc == .done then
          some (relabel t.g lbl, setTh c tid s1 { t with qt := qt', pc := .done, outcome := qt'.outcome })
        else some (relabel t.g lbl, setTh c tid s1 { t with qt := qt' })

/-- the server (thread 0 = its own thread) and the request threads `progs` (threads 1..n) -/
def init (prefetch : Nat) (progs : List Prog) : Cfg :=
  { sh := { prefetch := prefetch }, ths := ({ prog := .main } : Thread) :: progs.map fun p => { prog := p } }

def enabled (c : Cfg) : List Tid :=
  (List.range c.ths.length).filter fun tid => (step c tid).isSome

/-- Replay a schedule; stops at the first choice that is not enabled. -/
def replay : Cfg → List Tid → List (Tid × String) → List (Tid × String) × Cfg × Bool
  | c, [], acc => (acc.reverse, c, true)
  | c, tid :: rest, acc =>
    match step c tid with
    | none => (acc.reverse, c, false)
    | some (lbl, c') => replay c' rest ((tid, lbl) :: acc)

/-- like `replay`, recording the enabled set before every step (and at the end) -/
def replayEnabled : Cfg → List Tid → List (List Tid) → List (List Tid)
  | c, [], acc => (enabled c :: acc).reverse
  | c, tid :: rest, acc =>
    match step c tid with
    | none => (enabled c :: acc).reverse
    | some (_, c') => replayEnabled c' rest (enabled c :: acc)

end MlModel.Prefetch
