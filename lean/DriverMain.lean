import Driver
/-!
Line-protocol driver: one JSON object per input line, `{"model": "<name>", ...}`;
one JSON object per output line.  A malformed request answers `{"driver_error": ...}`
(never a default value).
-/
open Lean
partial def loop (h : IO.FS.Stream) (out : IO.FS.Stream) : IO Unit := do
  let line ← h.getLine
  if line.isEmpty then return ()
  let r := match Json.parse line with
    | .error e => Json.mkObj [("driver_error", Json.str s!"parse: {e}")]
    | .ok j =>
      match j.getObjValAs? String "model" with
      | .error e => Json.mkObj [("driver_error", Json.str e)]
      | .ok m =>
        match Driver.dispatch m with
        | none => Json.mkObj [("driver_error", Json.str s!"unknown model {m}")]
        | some f =>
          match f j with
          | .ok v => v
          | .error e => Json.mkObj [("driver_error", Json.str e)]
  out.putStrLn r.compress
  out.flush
  loop h out
def main : IO Unit := do
  loop (← IO.getStdin) (← IO.getStdout)
