#!/usr/bin/env python3
"""Integrator tool (never run by a check): folds known_findings.d/*.json fragments into known_findings.json."""
import json, os
V = os.path.join(os.path.dirname(os.path.abspath(__file__)), '..')
main = json.load(open(os.path.join(V, 'known_findings.json')))
ids = {f['id'] for f in main['findings']}
d = os.path.join(V, 'known_findings.d')
for f in sorted(os.listdir(d)):
  if f.endswith('.json'):
    for e in json.load(open(os.path.join(d, f))).get('findings', []):
      if e['id'] not in ids:
        main['findings'].append(e); ids.add(e['id'])
    os.unlink(os.path.join(d, f))
json.dump(main, open(os.path.join(V, 'known_findings.json'), 'w'), indent=1)
print(len(main['findings']), 'findings:', ' '.join(f"{f['id']}({f['status']})" for f in main['findings']))
