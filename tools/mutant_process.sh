#!/bin/sh
# tools/mutant_process.sh <worktree> <Cxx> <slug> [sibling checks...]
# Stages <worktree>/_deliver as seeded/<Cxx>-m<n>-<slug>, makes the demo self-contained (courier stand-in), removes the worktree and runs
# demo / pinned suite / checks against the change (tools/try_mutant.sh).  Prompt template for the agents: tools/mutant_prompt.txt
# (@W@ = worktree, @AVOID@ = one-line summaries of seeded/<Cxx>-m*/meta.json); the stand-in they may use: tools/courier_stub_neutral.py -> /tmp/courier_stub.py.
W=$1; P=$2; SLUG=$3; shift 3
cd "$(dirname "$0")/.."
n=$(( $(ls -d seeded/$P-m* 2>/dev/null | wc -l) + 1 ))
D=seeded/$P-m$n-$SLUG
mkdir -p $D; cp $W/_deliver/patch.diff $W/_deliver/demo.py $W/_deliver/meta.json $D/
git -C /repo worktree remove --force $W
tools/mutant_fix_stub.sh $D
TESTS=1 tools/try_mutant.sh $D $P "$@"
