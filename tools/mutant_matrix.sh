#!/bin/sh
# tools/mutant_matrix.sh [seeded-id-glob]   runs every seeded change through the quick check(s) of its property
# (scratch worktree, VERIF_REPO) and prints one line per (change, check): exit code + how it was reported.
cd "$(dirname "$0")/.."
for d in seeded/${1:-*}/; do
  id=$(basename "$d")
  props=$(python3 -c "import json,sys; m=json.load(open('$d/meta.json')); print(' '.join([m['property']]+m.get('also_checked',[])))")
  out=$(tools/try_mutant.sh "$d" $props 2>&1)
  echo "== $id"; echo "$out" | grep -E "^demo|^check|VIOLATION|DOES NOT APPLY" | cut -c1-220
done
