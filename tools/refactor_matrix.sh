#!/bin/sh
# tools/refactor_matrix.sh   runs every behaviour-preserving refactoring under refactors/ through the checks of the
# properties anchored in the files it touches; every line should read "exit 0" (an alarm here is a false alarm).
cd "$(dirname "$0")/.."
checks_for() { case "$1" in
  agg) echo "C07 C01 C11";; agg2) echo "C07 C01 C11";; stats2) echo "C07 C01 C11";; io2) echo "C09 C10 C03 C13 C12";; runner2) echo "C02 C03 C10 C16 C08";; server2) echo "C15 C04 C05 C13 C06";; queue) echo "C04 C05 C09 C13 C15 C19 C10";; tree) echo "C18 C08 C12 C02 C19 C03";;
  dist) echo "C06 C14 C15 C16 C17 C20";; esac; }
for g in refactors/*/; do g=$(basename "$g"); for p in refactors/$g/*.diff; do
  echo "== $g/$(basename $p)"; tools/try_refactor.sh "$p" $(checks_for $g) 2>&1 | grep -E "^check|APPLY" | cut -c1-200
done; done
