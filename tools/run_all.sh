#!/bin/sh
# tools/run_all.sh [seeds...]   runs every registered quick check for each seed; prints one line per run
cd "$(dirname "$0")/.."
(cd lean && lake build MlModel 2>&1 | tail -1)
SEEDS="${*:-0 1 2}"
for p in $(python3 -c "import json; print(' '.join(c['property_id'] for c in json.load(open('MANIFEST.json'))['checks']))"); do
  for s in $SEEDS; do
    t0=$(date +%s)
    VERIF_SEED=$s ./check $p --tier "${TIER:-quick}" > /tmp/run_all_$$.log 2>&1; rc=$?
    echo "$p seed=$s rc=$rc $(( $(date +%s) - t0 ))s $(grep -c VIOLATION /tmp/run_all_$$.log) violations | $(tail -1 /tmp/run_all_$$.log | cut -c1-150)"
  done
done
rm -f /tmp/run_all_$$.log
