#!/bin/sh
# fix_stub.sh <seeded dir>: make demo.py self-contained w.r.t. the courier stand-in
D=$1
if grep -q "/tmp/courier_stub.py" $D/demo.py; then
  cp "$(dirname "$0")/courier_stub_neutral.py" $D/courier_stub.py
  python3 - "$D/demo.py" <<'P'
import sys,re
p=sys.argv[1]; s=open(p).read()
s=s.replace("'/tmp/courier_stub.py'","__import__('os').path.join(__import__('os').path.dirname(__import__('os').path.abspath(__file__)), 'courier_stub.py')")
s=s.replace('"/tmp/courier_stub.py"',"__import__('os').path.join(__import__('os').path.dirname(__import__('os').path.abspath(__file__)), 'courier_stub.py')")
open(p,'w').write(s)
P
fi
