"""Minimal in-process stand-in for the `courier` RPC package."""
import itertools
import pickle
import sys
import threading
import time
import types
from concurrent import futures as _futures

_SERVERS = {}
_SERVERS_LOCK = threading.Lock()
_PORTS = itertools.count(20000)
_POOL = _futures.ThreadPoolExecutor(max_workers=64, thread_name_prefix='courier-stub')


class StatusNotOk(RuntimeError):
  """Mimics the pybind status error of courier (has a `code`)."""

  def __init__(self, message, code):
    super().__init__(message)
    self.code = code


def _wire(obj):
  """Everything crossing the wire is serialised: no object sharing."""
  return pickle.loads(pickle.dumps(obj))


class Server:

  def __init__(self, name=None, port=None, **unused_kwargs):
    self._name = name
    self._port = port or next(_PORTS)
    self._handlers = {}
    self._started = False

  @property
  def address(self):
    return self._name or f'localhost:{self._port}'

  @property
  def has_started(self):
    return self._started

  def Bind(self, name, fn):
    self._handlers[name] = fn

  def Unbind(self, name):
    self._handlers.pop(name, None)

  def Start(self):
    with _SERVERS_LOCK:
      _SERVERS[self.address] = self
      self._started = True

  def Stop(self):
    with _SERVERS_LOCK:
      if _SERVERS.get(self.address) is self:
        del _SERVERS[self.address]
      self._started = False

  def Join(self):
    while self._started:
      time.sleep(0.05)


def _invoke(address, method, args, kwargs, deadline):
  # An unreachable server looks like a call that never completes.
  while True:
    with _SERVERS_LOCK:
      server = _SERVERS.get(address)
    if server is not None:
      break
    if deadline is not None and time.time() > deadline:
      raise StatusNotOk(f'Deadline Exceeded calling {address}', 4)
    time.sleep(0.01)
  handler = server._handlers.get(method)
  if handler is None:
    raise StatusNotOk(f'method {method} not found', 5)
  try:
    return _wire(handler(*_wire(args), **_wire(kwargs)))
  except Exception as e:  # pylint: disable=broad-exception-caught
    raise StatusNotOk(f'{type(e).__name__}: {e}', 2) from e


class _Futures:

  def __init__(self, client):
    self._client = client

  def __getattr__(self, method):
    if method.startswith('__'):
      raise AttributeError(method)
    client = self._client

    def call(*args, **kwargs):
      timeout = client._call_timeout
      deadline = time.time() + timeout if timeout else None
      inner = _POOL.submit(
          _invoke, client._address, method, args, kwargs, deadline
      )
      if not timeout:
        return inner
      outer = _futures.Future()
      outer.set_running_or_notify_cancel()

      def watch():
        try:
          outer.set_result(inner.result(timeout=timeout))
        except _futures.TimeoutError:
          outer.set_exception(StatusNotOk('Deadline Exceeded', 4))
        except BaseException as e:  # pylint: disable=broad-exception-caught
          outer.set_exception(e)

      threading.Thread(target=watch, daemon=True).start()
      return outer

    return call


class Client:

  def __init__(self, address, call_timeout=None, **unused_kwargs):
    self._address = address
    self._call_timeout = call_timeout or 0
    self.futures = _Futures(self)

  def __getattr__(self, method):
    if method.startswith('__'):
      raise AttributeError(method)
    fut_call = getattr(self.futures, method)
    return lambda *a, **k: fut_call(*a, **k).result()


def install():
  mod = types.ModuleType('courier')
  mod.Server = Server
  mod.Client = Client
  mod.StatusNotOk = StatusNotOk
  sys.modules['courier'] = mod
  return mod

