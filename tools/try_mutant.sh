#!/bin/sh
# tools/try_mutant.sh <mutant_dir> <Cxx> [more Cxx...]
# Confirms a seeded change in a scratch worktree of /repo (never in /repo itself) and runs checks against it.
#   1. demo.py passes on the clean tree   2. patch applies   3. demo.py fails with the patch
#   4. (optional, TESTS=1) pinned suite still 657 passed    5. each check is run with VERIF_REPO=<scratch>
set -u
M=$(realpath "$1"); shift
W=/tmp/mutrun_$$
git -C /repo worktree add -q --detach "$W" HEAD || exit 2
trap 'git -C /repo worktree remove --force "$W" >/dev/null 2>&1' EXIT
run_demo() { (cd "$W" && PYTHONPATH="$W" timeout 600 /venv/bin/python "$M/demo.py" >/tmp/mutrun_demo_$$.log 2>&1); echo $?; }
echo "demo on clean tree: exit $(run_demo)"
(cd "$W" && git apply "$M/patch.diff") || { echo "PATCH DOES NOT APPLY"; exit 2; }
echo "demo with patch:    exit $(run_demo)"; tail -3 /tmp/mutrun_demo_$$.log
if [ "${TESTS:-0}" = 1 ]; then
  (cd "$W" && /venv/bin/python -m pytest -q -p no:cacheprovider -n 8 --continue-on-collection-errors 2>&1 | tail -1)
fi
cd "$(dirname "$0")/.."
for P in "$@"; do
  VERIF_OUT=/tmp/mutrun_out_$$ VERIF_REPO="$W" ./check "$P" --tier "${TIER:-quick}" > /tmp/mutrun_check_$$.log 2>&1; rc=$?
  echo "check $P: exit $rc"; grep -E "VIOLATION|INFRASTRUCTURE" /tmp/mutrun_check_$$.log | head -3; tail -1 /tmp/mutrun_check_$$.log
done
rm -rf /tmp/mutrun_demo_$$.log /tmp/mutrun_check_$$.log /tmp/mutrun_out_$$
