#!/bin/sh
# tools/try_refactor.sh <patch.diff> <Cxx> [more Cxx...]
# Applies a behaviour-preserving refactoring in a scratch worktree of /repo and runs checks against it (VERIF_REPO).
# Every check is expected to stay green: an alarm here is a false alarm of the machinery.
set -u
P=$(realpath "$1"); shift
W=/tmp/refrun_$$
git -C /repo worktree add -q --detach "$W" HEAD || exit 2
trap 'git -C /repo worktree remove --force "$W" >/dev/null 2>&1; rm -rf /tmp/refrun_out_$$ /tmp/refrun_check_$$.log' EXIT
(cd "$W" && git apply "$P") || { echo "PATCH DOES NOT APPLY"; exit 2; }
cd "$(dirname "$0")/.."
for C in "$@"; do
  VERIF_OUT=/tmp/refrun_out_$$ VERIF_REPO="$W" ./check "$C" --tier "${TIER:-quick}" > /tmp/refrun_check_$$.log 2>&1; rc=$?
  echo "check $C: exit $rc $(grep -E 'VIOLATION|INFRASTRUCTURE' /tmp/refrun_check_$$.log | head -2 | tr '\n' ' ')"
  if [ $rc -ne 0 ]; then mkdir -p /tmp/refalarms; cp -r /tmp/refrun_out_$$/replays /tmp/refalarms/$(basename "$P" .diff)_$C 2>/dev/null; tail -3 /tmp/refrun_check_$$.log | cut -c1-300; fi
done
