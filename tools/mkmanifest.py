#!/usr/bin/env python3
"""Assembles MANIFEST.json from manifest.d/*.json fragments (one per claimed property) and
manifest.d/not_applicable.json; validates against the schema when jsonschema is importable."""
import json, os, sys
V = os.path.join(os.path.dirname(os.path.abspath(__file__)), '..')
frag_dir = os.path.join(V, 'manifest.d')
checks, na = [], []
for f in sorted(os.listdir(frag_dir)):
  j = json.load(open(os.path.join(frag_dir, f)))
  if f == 'not_applicable.json':
    na = j
  else:
    checks.append(j)
claimed = {c['property_id'] for c in checks}
props = [json.loads(l)['id'] for l in open(os.path.join(V, 'properties.jsonl'))]
na = [x for x in na if x['property_id'] not in claimed]
for p in props:
  if p not in claimed and p not in {x['property_id'] for x in na}:
    na.append(dict(property_id=p, reason='not yet claimed: model/proofs/correspondence for this property are not complete in this tree (see DESIGN.md section 6 for the plan)'))
for c in checks:
  pid = c['property_id']
  c.setdefault('quick_cmd', f'./check {pid} --tier quick')
  c.setdefault('thorough_cmd', f'./check {pid} --tier thorough')
  c.setdefault('evidence_file', f'evidence/{pid}.json')
  c.setdefault('replay_cmd_template', f'./check {pid} --replay {{path}}')
  c.setdefault('engine', 'lean4-model')
m = dict(
  version=1,
  setup_cmd='./setup.sh',
  hooks=dict(guard='GOOGLE_ML_METRICS_VERIF', enable='no source hooks are needed: the harness imports /repo in-process and substitutes module attributes (threading/queue/time/courier) from outside',
             baseline_off_cmd='cd /repo && /venv/bin/python -m pytest -ra -q -p no:cacheprovider --timeout=900 --continue-on-collection-errors',
             source_commits=[], add_only=True),
  engines=[dict(name='lean4-model', path='lean/', serves_properties=sorted(claimed),
                kind_free_text='Lean 4 executable models + kernel-checked theorems (lake project MlModel), compiled JSON line-protocol driver, Python differential correspondence harness (harness/)')],
  checks=sorted(checks, key=lambda c: c['property_id']),
  notes='Every check = lake build of the property theorems + #print axioms audit + model/implementation correspondence + property oracle on the real code. See DESIGN.md.',
  not_applicable=sorted(na, key=lambda x: x['property_id']),
)
json.dump(m, open(os.path.join(V, 'MANIFEST.json'), 'w'), indent=1)
try:
  import jsonschema
  jsonschema.validate(m, json.load(open('/root/.vp/MANIFEST.schema.json')))
  print('MANIFEST.json valid;', len(checks), 'checks;', len(na), 'not_applicable')
except ImportError:
  print('MANIFEST.json written (jsonschema not importable here)')
