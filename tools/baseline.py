#!/usr/bin/env python3
"""Runs the repository's pinned test suite (guard OFF) and compares with BASELINE.json stable_pass."""
import json, os, subprocess, sys, tempfile, xml.etree.ElementTree as ET
base = json.load(open('/root/.vp/BASELINE.json')) if os.path.exists('/root/.vp/BASELINE.json') else None
env = dict(os.environ)
env.pop('GOOGLE_ML_METRICS_VERIF', None)
with tempfile.TemporaryDirectory() as d:
  x = os.path.join(d, 'j.xml')
  p = subprocess.run(['/venv/bin/python', '-m', 'pytest', '-ra', '-q', '-p', 'no:cacheprovider', '--timeout=900',
                      '--continue-on-collection-errors', '-n', '8', f'--junitxml={x}'], cwd='/repo', env=env,
                     capture_output=True, text=True)
  print(p.stdout[-1500:])
  passed = set()
  for tc in ET.parse(x).getroot().iter('testcase'):
    if not any(ch.tag in ('failure', 'error', 'skipped') for ch in tc):
      passed.add(f"{tc.get('classname')}::{tc.get('name')}")
if base:
  want = set(base['stable_pass'])
  missing = sorted(want - passed)
  print(f'stable_pass={len(want)} passed_now={len(passed)} missing={len(missing)}')
  for m in missing[:20]:
    print('  MISSING', m)
  sys.exit(1 if missing else 0)
