#!/usr/bin/env python3
"""Regenerates the import roots of the lake project from the directory listing.

  lean/MlModel.lean          imports every module under lean/MlModel/
  lean/Driver.lean           imports Driver.Registry
  lean/Driver/Registry.lean  dispatch table: model name (lower-cased file name) -> Driver.<Name>.handle

Writing is skipped when the content is unchanged, so `lake build` stays a no-op.
"""
import os, sys

def write_if_changed(path, content):
  try:
    if open(path).read() == content:
      return
  except FileNotFoundError:
    pass
  with open(path, 'w') as f:
    f.write(content)

def main(lean_dir):
  mods = []
  root = os.path.join(lean_dir, 'MlModel')
  for d, _, files in sorted(os.walk(root)):
    for f in sorted(files):
      if f.endswith('.lean'):
        rel = os.path.relpath(os.path.join(d, f), lean_dir)[:-5]
        parts = rel.split(os.sep)
        if 'Audit' in parts or 'Scratch' in parts:
          continue
        mods.append('.'.join(parts))
  write_if_changed(os.path.join(lean_dir, 'MlModel.lean'),
                   ''.join(f'import {m}\n' for m in mods))
  handlers = sorted(f[:-5] for f in os.listdir(os.path.join(lean_dir, 'Driver'))
                    if f.endswith('.lean') and f not in ('Registry.lean', 'Util.lean'))
  reg = ''.join(f'import Driver.{h}\n' for h in handlers)
  reg += 'open Lean\nnamespace Driver\n'
  reg += 'def dispatch (model : String) : Option (Json → Except String Json) :=\n  match model with\n'
  for h in handlers:
    reg += f'  | "{h.lower()}" => some Driver.{h}.handle\n'
  reg += '  | _ => none\nend Driver\n'
  write_if_changed(os.path.join(lean_dir, 'Driver', 'Registry.lean'), reg)
  write_if_changed(os.path.join(lean_dir, 'Driver.lean'), 'import Driver.Registry\n')

if __name__ == '__main__':
  main(sys.argv[1] if len(sys.argv) > 1 else os.path.join(os.path.dirname(os.path.abspath(__file__)), '..', 'lean'))
