#!/usr/bin/env python3
"""tools/keep_mutant.py <src_dir> <seed_id> <property> <caught_by> <result text>
Copies a confirmed seeded change into seeded/<seed_id>/ and completes meta.json."""
import json, os, shutil, sys
src, sid, prop, caught, result = sys.argv[1:6]
V = os.path.join(os.path.dirname(os.path.abspath(__file__)), '..')
d = os.path.join(V, 'seeded', sid)
os.makedirs(d, exist_ok=True)
for f in ('patch.diff', 'demo.py'):
  shutil.copy(os.path.join(src, f), os.path.join(d, f))
meta = json.load(open(os.path.join(src, 'meta.json')))
meta.update(dict(
  id=sid, property=prop,
  author='independent sub-agent given only the property text and a scratch worktree of /repo',
  confirmed_by_integrator=['demo.py exits 0 on the clean tree', 'patch.diff applies to /repo HEAD', 'demo.py exits non-zero with the patch',
                           'pinned suite unchanged with the patch: 657 passed, 7 collection errors'],
  ran='tools/try_mutant.sh <dir> ' + prop + ' (scratch worktree via VERIF_REPO, never /repo itself)',
  caught_by=caught, check_result=result))
json.dump(meta, open(os.path.join(d, 'meta.json'), 'w'), indent=1)
print('kept', sid)
