#!/usr/bin/env python3
"""Rewrites the generated tables of DESIGN.md (between <!-- X --> … <!-- /X --> markers) from
known_findings.json and seeded/*/meta.json, and fills the {N…} counters of the summary."""
import json, os, re
V = os.path.join(os.path.dirname(os.path.abspath(__file__)), '..')
k = json.load(open(os.path.join(V, 'known_findings.json')))['findings']

def cell(s, n=230):
  s = re.sub(r'^fixed: property=\S+ (\S+ )+?(?=[A-Za-z`(_\[])', '', str(s)).replace('|', '/').replace('\n', ' ')
  return s if len(s) <= n else s[:n - 1] + '…'

rows = ['| id | property | status | commit in /repo | what failed on the unchanged code |', '|---|---|---|---|---|']
for f in k:
  props = f['property'] + (' (+' + ','.join(f['also']) + ')' if f.get('also') else '')
  rows.append(f"| {f['id']} | {props} | {f['status']} | {f.get('commit', '') if f['status'] == 'fixed' else ''} | {cell(f['what'])} |")
findings = '\n'.join(rows)

rows = ['| seeded change | property | what it needs to manifest | result |', '|---|---|---|---|']
sd = os.path.join(V, 'seeded')
n_seed = 0
for d in sorted(os.listdir(sd)):
  p = os.path.join(sd, d, 'meta.json')
  if not os.path.exists(p):
    continue
  m = json.load(open(p)); n_seed += 1
  rows.append(f"| {d} | {m.get('property')} | {cell(m.get('what_it_needs_to_manifest', m.get('summary', '')), 200)} | {cell(m.get('caught_by', ''), 260)} |")
seeded = '\n'.join(rows)

path = os.path.join(V, 'DESIGN.md')
s = open(path).read()
def put(tag, body):
  global s
  s = re.sub(rf'<!-- {tag} -->.*?<!-- /{tag} -->', lambda m: f'<!-- {tag} -->\n{body}\n<!-- /{tag} -->', s, flags=re.S)
put('FINDINGS-TABLE', findings)
put('SEEDED-TABLE', seeded)
nfix = sum(f['status'] == 'fixed' for f in k); nopen = sum(f['status'] == 'open' for f in k)
put('COUNTS', f'{len(k)} entries in `known_findings.json`: {nfix} fixed by `fix:` commits in /repo, {nopen} open; {n_seed} seeded changes in `seeded/`.')
open(path, 'w').write(s)
print(len(k), nfix, nopen, n_seed)
