#!/bin/sh
# MANIFEST.setup_cmd: build the whole framework offline from files on disk.
set -e
cd "$(dirname "$0")"
export PYTHONDONTWRITEBYTECODE=1
if [ -f translate/run.py ]; then /venv/bin/python translate/run.py "${VERIF_REPO:-/repo}" lean || true; fi
python3 tools/gen_imports.py lean
cd lean
lake build MlModel driver
