"""Behaviour-preserving syntactic normalisations shared by the translators (run.py, scalar.py, wiring.py).

A rewrite a maintainer may make without changing behaviour must not take a function out of a translator's
grammar: statement lists are normalised first (early-return chains -> if/elif/else, single-use pure locals
inlined, `if c: return A` + `return B` -> `return A if c else B`, `**local_dict` expanded, trivial private
helpers inlined at their call).
"""
from __future__ import annotations

import ast


# Behaviour-preserving rewrites a maintainer may make must not take a function out of the grammar:
# the statement list is normalised first (early-return chains -> if/elif/else, single-use pure
# locals inlined, `if c: return A` + `return B` -> `return A if c else B`).

def _ends_flow(stmts):
  if not stmts:
    return False
  last = stmts[-1]
  if isinstance(last, (ast.Return, ast.Raise)):
    return True
  return isinstance(last, ast.If) and _ends_flow(last.body) and _ends_flow(last.orelse)


def chainify(stmts):
  """`if c: return X` followed by more statements == `if c: return X else: <more statements>`."""
  out = []
  for i, st in enumerate(stmts):
    if isinstance(st, ast.If):
      st = ast.If(test=st.test, body=chainify(st.body), orelse=chainify(st.orelse))
      if not st.orelse and _ends_flow(st.body) and i + 1 < len(stmts):
        st.orelse = chainify(stmts[i + 1:])
        out.append(ast.fix_missing_locations(st))
        return out
    out.append(st)
  return out


class _Subst(ast.NodeTransformer):
  def __init__(self, name, expr):
    self.name, self.expr = name, expr
  def visit_Name(self, node):
    if node.id == self.name and isinstance(node.ctx, ast.Load):
      return self.expr
    return node


def _uses(stmts, name):
  return sum(1 for st in stmts for n in ast.walk(st)
             if isinstance(n, ast.Name) and n.id == name and isinstance(n.ctx, ast.Load))


def _assigned(stmts, name):
  return sum(1 for st in stmts for n in ast.walk(st)
             if isinstance(n, ast.Name) and n.id == name and isinstance(n.ctx, ast.Store))


def inline_single_use_locals(stmts, keep=()):
  """`x = E` (top level, x assigned once, read exactly once later, E built from names that are not
  re-assigned in between) is inlined at its use.  E is evaluated once either way; the functions
  checked this way have no statements with side effects between the assignment and the use."""
  stmts = list(stmts)
  changed = True
  while changed:
    changed = False
    for i, st in enumerate(stmts):
      if (isinstance(st, ast.Assign) and len(st.targets) == 1 and isinstance(st.targets[0], ast.Name)
          and st.targets[0].id not in keep):
        x = st.targets[0].id
        rest = stmts[i + 1:]
        if _assigned(stmts, x) == 1 and _uses(rest, x) == 1 and _uses(stmts[:i + 1], x) == 0:
          free = {n.id for n in ast.walk(st.value) if isinstance(n, ast.Name)}
          if not any(_assigned(rest, f) for f in free):
            new_rest = [ast.fix_missing_locations(_Subst(x, st.value).visit(r)) for r in rest]
            stmts = stmts[:i] + new_rest
            changed = True
            break
  return stmts


def fold_return_ifexp(stmts):
  """`if c: return A` / `else: return B` (or a following `return B`) -> `return A if c else B`."""
  stmts = chainify(stmts)
  out = []
  for st in stmts:
    if (isinstance(st, ast.If) and len(st.body) == 1 and isinstance(st.body[0], ast.Return)
        and len(st.orelse) == 1 and isinstance(st.orelse[0], ast.Return)
        and st.body[0].value is not None and st.orelse[0].value is not None):
      st = ast.fix_missing_locations(ast.Return(value=ast.IfExp(test=st.test, body=st.body[0].value,
                                                                  orelse=st.orelse[0].value)))
    out.append(st)
  return out


def normal_text(stmts, keep=()):
  return '\n'.join(ast.unparse(s) for s in fold_return_ifexp(inline_single_use_locals(stmts, keep)))


def body_wo_doc(fdef):
  b = list(fdef.body)
  if b and isinstance(b[0], ast.Expr) and isinstance(b[0].value, ast.Constant) and isinstance(b[0].value.value, str):
    b = b[1:]
  return b


def _pure(e):
  """an expression that can be duplicated / moved: names, attribute chains, constants, comparisons and tuples of those"""
  if isinstance(e, (ast.Name, ast.Constant)):
    return True
  if isinstance(e, ast.Attribute):
    return _pure(e.value)
  if isinstance(e, ast.Compare):
    return _pure(e.left) and all(_pure(c) for c in e.comparators)
  if isinstance(e, (ast.Tuple, ast.List)):
    return all(_pure(x) for x in e.elts)
  if isinstance(e, ast.UnaryOp):
    return _pure(e.operand)
  return False


class _ExpandStarStar(ast.NodeTransformer):
  def __init__(self, name, items):
    self.name, self.items, self.left = name, items, 0
  def visit_Call(self, node):
    self.generic_visit(node)
    kws = []
    for k in node.keywords:
      if k.arg is None and isinstance(k.value, ast.Name) and k.value.id == self.name:
        kws += [ast.keyword(arg=a, value=v) for a, v in self.items]
      else:
        kws.append(k)
    node.keywords = kws
    return node


def expand_dict_locals(stmts):
  """`kw = dict(a=x, b=y)` (or `{'a': x, 'b': y}`; top level, assigned once, pure values, names not re-assigned later)
  followed by calls `f(**kw, c=z)` == `f(a=x, b=y, c=z)`.  The assignment is dropped when no other use remains."""
  stmts = list(stmts)
  changed = True
  while changed:
    changed = False
    for i, st in enumerate(stmts):
      if not (isinstance(st, ast.Assign) and len(st.targets) == 1 and isinstance(st.targets[0], ast.Name)):
        continue
      name, v = st.targets[0].id, st.value
      items = None
      if isinstance(v, ast.Call) and isinstance(v.func, ast.Name) and v.func.id == 'dict' and not v.args \
          and all(k.arg is not None for k in v.keywords):
        items = [(k.arg, k.value) for k in v.keywords]
      elif isinstance(v, ast.Dict) and all(isinstance(k, ast.Constant) and isinstance(k.value, str) for k in v.keys):
        items = [(k.value, x) for k, x in zip(v.keys, v.values)]
      if items is None or not all(_pure(x) for _, x in items) or _assigned(stmts, name) != 1:
        continue
      rest = stmts[i + 1:]
      free = {n.id for _, x in items for n in ast.walk(x) if isinstance(n, ast.Name)}
      if any(_assigned(rest, f) for f in free):
        continue
      stars = sum(1 for r in rest for n in ast.walk(r) if isinstance(n, ast.Call) for k in n.keywords
                  if k.arg is None and isinstance(k.value, ast.Name) and k.value.id == name)
      if stars == 0:
        continue
      new_rest = [ast.fix_missing_locations(_ExpandStarStar(name, items).visit(r)) for r in rest]
      keep = [st] if _uses(new_rest, name) else []
      stmts = stmts[:i] + keep + new_rest
      changed = True
      break
  return stmts


class _SubstMany(ast.NodeTransformer):
  def __init__(self, env):
    self.env = env
  def visit_Name(self, node):
    if node.id in self.env and isinstance(node.ctx, ast.Load):
      return self.env[node.id]
    return node


def _bind_helper(h, call):
  """parameter -> argument expression of a call to helper `h`, or None if it cannot be bound purely"""
  a = h.args
  if a.vararg or a.kwarg or a.posonlyargs:
    return None
  pos = [x.arg for x in a.args]
  kwo = [x.arg for x in a.kwonlyargs]
  env = {}
  if len(call.args) > len(pos) or any(isinstance(x, ast.Starred) for x in call.args):
    return None
  for p, x in zip(pos, call.args):
    env[p] = x
  for k in call.keywords:
    if k.arg is None or k.arg in env or k.arg not in pos + kwo:
      return None
    env[k.arg] = k.value
  for p, d in list(zip(pos[len(pos) - len(a.defaults):], a.defaults)) + [(p, d) for p, d in zip(kwo, a.kw_defaults) if d is not None]:
    env.setdefault(p, d)
  if set(env) != set(pos + kwo) or not all(_pure(x) for x in env.values()):
    return None
  body = body_wo_doc(h)
  if any(_assigned(body, p) for p in env):
    return None
  return env


class _InlineExprHelpers(ast.NodeTransformer):
  def __init__(self, helpers):
    self.helpers, self.changed = helpers, False
  def visit_Call(self, node):
    self.generic_visit(node)
    if isinstance(node.func, ast.Name) and node.func.id in self.helpers:
      h = self.helpers[node.func.id]
      body = body_wo_doc(h)
      if len(body) == 1 and isinstance(body[0], ast.Return) and body[0].value is not None:
        env = _bind_helper(h, node)
        if env is not None:
          import copy
          self.changed = True
          return _SubstMany(env).visit(copy.deepcopy(body[0].value))
    return node


def inline_private_helpers(stmts, helpers, depth=3):
  """Calls to private module-level helpers are replaced by the helper's body (arguments must be pure expressions):
  an expression-bodied helper (`def _h(..): return E`) anywhere, a helper with statements when the call is the whole
  value of a final `return _h(..)`."""
  import copy
  stmts = list(stmts)
  for _ in range(depth):
    tr = _InlineExprHelpers(helpers)
    stmts = [ast.fix_missing_locations(tr.visit(copy.deepcopy(s))) for s in stmts]
    changed = tr.changed
    if stmts and isinstance(stmts[-1], ast.Return) and isinstance(stmts[-1].value, ast.Call) \
        and isinstance(stmts[-1].value.func, ast.Name) and stmts[-1].value.func.id in helpers:
      h = helpers[stmts[-1].value.func.id]
      env = _bind_helper(h, stmts[-1].value)
      if env is not None:
        body = [ast.fix_missing_locations(_SubstMany(env).visit(copy.deepcopy(s))) for s in body_wo_doc(h)]
        stmts = stmts[:-1] + body
        changed = True
    if not changed:
      break
  return stmts


def normalize_nested(stmts, keep=()):
  """`expand_dict_locals` + `inline_single_use_locals` at every nesting level of if / elif / else blocks"""
  stmts = inline_single_use_locals(expand_dict_locals(stmts), keep)
  out = []
  for st in stmts:
    if isinstance(st, ast.If):
      st = ast.fix_missing_locations(ast.If(test=st.test, body=normalize_nested(st.body, keep),
                                            orelse=normalize_nested(st.orelse, keep)))
    out.append(st)
  return out


def drop_trailing_bare_return(stmts):
  """a bare `return` that ends a branch of a procedure (e.g. of `__init__`) after `chainify` is a no-op"""
  out = []
  for st in stmts:
    if isinstance(st, ast.If):
      st = ast.fix_missing_locations(ast.If(test=st.test, body=drop_trailing_bare_return(st.body),
                                            orelse=drop_trailing_bare_return(st.orelse)))
    out.append(st)
  if len(out) > 1 and isinstance(out[-1], ast.Return) and out[-1].value is None:
    out = out[:-1]
  return out
